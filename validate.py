#!/usr/bin/env python3
import json, sys, glob
try:
    import jsonschema
except ImportError:
    sys.exit("run with python3-vt")
m=json.load(open('/verif/MANIFEST.json')); s=json.load(open('/root/.vp/MANIFEST.schema.json'))
jsonschema.validate(m,s); print('manifest valid')
s=json.load(open('/root/.vp/EVIDENCE.schema.json'))
for f in sorted(glob.glob('/verif/evidence/*.json')):
    jsonschema.validate(json.load(open(f)),s); print(f,'valid')
