#!/bin/sh
# Re-runs every kept seeded change against the current checks (3 at a time).
cd "$(dirname "$0")"
n=0
for d in seeded/*/; do
  id=$(basename $d)
  prop=$(python3 -c "import json;m=json.load(open('$d/meta.json'));print(m['property'])")
  checks=$(python3 -c "import json;m=json.load(open('$d/meta.json'));print(','.join(r['check'] for r in m['ran']))")
  needs=$(python3 -c "import json;m=json.load(open('$d/meta.json'));print(m['needs_to_manifest'])")
  python3 seedcheck.py $id $d --property $prop --checks $checks --needs "$needs" > /tmp/seedsweep-$id.txt 2>&1 &
  n=$((n+1))
  if [ $((n % 3)) -eq 0 ]; then wait; fi
done
wait
for d in seeded/*/; do
  python3 -c "
import json; m=json.load(open('$d/meta.json')); print(m['seed'], 'confirmed' if m.get('confirmed') else 'NOT-CONFIRMED', ' '.join('%s=%s' % (r['check'], 'DETECTED' if r['detected'] else 'missed(rc=%s)' % r['exit']) for r in m['ran']))"
done
