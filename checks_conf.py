"""Static per-property configuration of the driver: package, budgets, level,
and the 'rule' / 'assumptions' texts that go into the evidence files. All
counts in the evidence are measured by the Go test binaries at run time."""

CONF = {
    "C14": {
        "pkg": "c14",
        "level": "exploration",
        "exhaustive_claim": True,
        "technique": "exhaustive enumeration of the CRC transition function + rapid-generated write partitions against a bit-serial reference",
        "level_text": "All 16.7M (state, byte) transitions of the streaming checksum are enumerated through the public API, one byte per Write, against a bit-serial CRC-16/ARC written from the definition; that covers every byte sequence fed byte-wise. Writes of several bytes (where an implementation may take a different code path), partitions, Reset and the residue rule are sampled: random strings with random cuts, and strings that embed their own checksum followed by zero padding at 8-byte aligned and unaligned positions. Exhaustive for the single-byte transition function, sampled for multi-byte writes.",
        "level_note": "Trusted: the 10-line bit-serial reference in harness/fitmodel/base.go. Not assumed: that a multi-byte Write is the composition of single-byte steps (an independently written change, seeded/C14-c, broke exactly that for a 2^-64 class of inputs; the embedded-sums family was added for it, other coincidences of that kind could still escape).",
        "quick": {"checks": 3000, "timeout": 120},
        "thorough": {"checks": 300000, "timeout": 600},
        "rule": "every write case is also fed with io.WriteString (cut at the same points) and, if offered, WriteByte; a fifth of the partition cases are UTF-8 text. every write case is also fed with io.Copy from readers that deliver the data whole, in pieces, byte by byte, and with the last piece together with io.EOF. large-writes: a fixed list (lengths 256, 4096, 32768, 65536, 131072, 196608, 2^20, each -1/0/+1) and up to 60 (thorough 3000) drawn lengths up to 300000 or 2^k+-2, written in one Write and in pieces cut around 64 KiB offsets; the data is a xorshift stream given by its seed; non-trivial = a single write of 64 KiB or more. embedded-sums: 50 per rapid case of data || own CRC little-endian || 0-16 zero bytes || tail, 8-byte aligned or not, written whole or split once. enumerated: every (16-bit register state, input byte) pair, the state reached through the public API "
                "by a 2-byte prefix (bijection computed with the bit-serial reference); each pair is distinct and counted "
                "non-trivial. generated: byte strings of 0..5000 bytes with 0..8 write boundaries (empty writes allowed) "
                "and a Reset point; non-trivial = at least 3 write pieces, distinct by fingerprint of (data, cuts, reset). "
                "oracle: bit-serial CRC-16/ARC (poly 0xA001 reflected, init 0) written from the definition.",
        "assumptions": ["the bit-serial reference CRC in harness/fitmodel is CRC-16/ARC (checked against the standard check value 0xBB3D for '123456789' by the harness self test)"],
    },
}

CONF["C02"] = {
    "pkg": "c02",
    "level": "exploration",
    "technique": "rapid-generated well-formed streams + deterministic per-field sweep, decoded and compared field by field with an independent reference interpreter; metamorphic removal of unknown items",
    "level_text": "Generated search against a reference interpreter of the FIT wire format that shares no code with the decoder: every field of every decoded message is compared with what the wire bytes denote, absent fields with the FIT invalid values. A deterministic sweep covers every profile field of the 45 observable messages with every compatible definition type, both byte orders and boundary values; random multi-record streams add interactions (field order, unknown/developer fields, redefinitions, compressed headers). Not a proof: multi-field interactions are sampled.",
    "level_note": "Trusted: harness/fitmodel (base type table from the FIT protocol document, interpreter), the hook's table export (which struct field a wire field lands in), the reading of 'compatible' = same type or an integer type of the same signedness that is not wider. Narrow fields carrying their own invalid pattern, latitude exactly +90 degrees and reference-less time situations are not decided (counted as undecided). Accumulated component destinations are compared by C18.",
    "quick": {"checks": 4000, "timeout": 300, "shrinktime": "10s"},
    "thorough": {"checks": 60000, "timeout": 1500, "shards": 8, "shrinktime": "30s"},
    "rule": "a sixth of the streams (half of the local-time streams) are decoded with DecodeChained as the second file of a chain whose first file leaves definitions on local types 0-5 and a time reference behind. one stream in ten consists of the messages that carry local times (activity, monitoring, monitoring_info, schedule) with a third of the local times at offset 0, +-1 s, whole and half hours from the reference; drawn chunkings include empty reads. a third of the streams are read through a drawn chunking; boundary: up to 40 (thorough 300) small streams, each decoded once per byte position with the decoder's 4096-byte buffer boundary slid over it by filler records. sweep: one single-field stream per (profile field of an observable message, compatible definition type incl. narrower same-signedness integers / array lengths 1, len-1, len, len+1, max / string sizes, byte order, boundary value) - distinct by construction, all non-trivial. streams: rapid GenStream (file type, 1..24 records over hosted, unhosted and unknown messages, compatible definitions, field permutations, unknown and developer fields, redefinitions, compressed headers); non-trivial = at least one big-endian multi-byte, narrower, negative signed, array, string, coordinate or time field; distinct by fingerprint of the stream. neighbours: same generator, unknown messages/fields/developer fields removed, digests of the remaining messages must be equal; non-trivial = something was removed.",
    "assumptions": ["fitmodel base type table and interpreter are correct readings of the FIT protocol", "hook table export is faithful (it copies the table entries)"],
}

CONF["C01"] = {
    "pkg": "c01",
    "level": "exploration",
    "exhaustive_claim": False,
    "technique": "exhaustive single-field definition grid + rapid structural mutation of generated streams and corpus files through all entry points and chunkings, with recover() and a hang watchdog as oracle; native go fuzzing in the thorough tier",
    "level_text": "Totality cannot be proved by testing; the check enumerates the whole single-field definition space named in the property (thorough: every profile field x 256 base bytes x 256 sizes x 2 byte orders, plus non-profile field numbers and unknown messages) and searches multi-field / malformed inputs by structured mutation and coverage-guided fuzzing, through all six entry-point variants and several read chunkings. 'No hang' is a 20 s watchdog on inputs that normally take microseconds.",
    "level_note": "Trusted: recover() sees every panic on the calling goroutine (the library starts none); readers that violate io.Reader (0,nil forever) are outside the domain. Multi-field interactions are sampled, not enumerated.",
    "quick": {"checks": 6000, "timeout": 600, "shrinktime": "10s"},
    "thorough": {"checks": 40000, "shards": 8, "timeout": 3000, "shrinktime": "30s", "fuzz": {"target": "FuzzDecodeAll", "seconds": 150}},
    "rule": "one generated stream in eight is a local-time stream. one drawn chunking in six also returns empty reads ((0, nil) on every 2nd/3rd/5th/17th call). chain-carry: two-member chains whose second member uses a local type only the first defined, for every known message number and 4 unknown ones x local types {0,1,5,15} x 3 second-member shapes, through all six entry points; one mutant in eleven is a chain of 2-3 images whose later members are variants of the first (definitions stripped, file_id data record dropped, spec mutations). grid: file = header + file_id + one definition with one field (num, size, base byte) in one byte order + one data record + CRC; every cell is distinct; non-trivial = Decode accepted the definition and the field is a profile field (a value is stored by reflection). mutants: rapid-drawn structural mutations (sizes, base bytes, field numbers, message numbers, byte order, local types, duplicate/drop/swap/truncate records, developer flags, 255-field definitions, header fields) of generated streams and of repository .fit files, CRC/size repaired 70% of the time, plus raw byte strings; read through whole/1-byte/fixed/list/data+EOF chunkings; non-trivial = DecodeHeader accepts the input (it got past the header); distinct by fingerprint of the bytes.",
    "assumptions": ["recover() on the calling goroutine observes every panic of the library", "a decode of a <20 KiB input that takes more than 20 s is a hang"],
}

CONF["C03"] = {
    "pkg": "c03",
    "level": "exploration",
    "exhaustive_claim": False,
    "technique": "exhaustive file-type-byte and (file type, message type) sweeps + rapid-generated tagged message sequences, compared with a routing model derived by reflection from the exported container structs; metamorphic removal of unheld messages",
    "level_text": "Generated search: sequences of tagged messages over all 17 file types are decoded and every container slot is compared (count, order, last-wins) with a routing model read off the exported container struct types, not the hand-written add switches; all 256 type bytes are enumerated for acceptance and for the 17 accessors; every (file type, known message) pair is exercised. Sampled for longer interleavings.",
    "level_note": "Trusted: the exported container structs are the specification of what a file type holds (slice member = all in order, pointer member = last); File-level slots (FileId, FileCreator, TimestampCorrelation) take precedence over containers. Repeated file_id messages always carry the same type (changing it mid-stream is finding D13 under C07).",
    "quick": {"checks": 4000, "timeout": 300, "shrinktime": "10s"},
    "thorough": {"checks": 150000, "timeout": 1500, "shards": 4, "shrinktime": "30s"},
    "rule": "a third of the items carry up to six more unsigned scalar fields with small valid values besides the marker. items may end in a zero-size tail (size-0 string field, size-0 developer field, developer flag without fields; the last item in 40% of the sequences). sequences also use compressed-timestamp headers on local types 0-3 and unknown messages with 324-byte payloads. typebytes: each of the 256 file_id type bytes through Decode and NewFile, then all 17 accessors (distinct, all counted). pairs: each (file type, known message number) with 3 tagged messages of that type on two local types and both byte orders, interleaved with another hosted type. sequences: rapid-drawn 1..30 messages over a focus set of 3 hosted types plus other hosted, unhosted known and unknown messages, each tagged with its position in a marker field, on random local types and byte orders; non-trivial = at least 2 message types and a hosted type occurring at least twice; distinct by fingerprint of the sequence.",
    "assumptions": ["exported container struct members are the routing specification", "marker fields are unsigned scalars outside component expansion so tags survive decoding unchanged (checked by C02)"],
}

CONF["C05"] = {
    "pkg": "c05",
    "level": "exploration",
    "technique": "rapid-generated Files built through the public API, Encode output parsed by an independent FIT grammar parser with bitwise CRC and compared byte-for-byte with a model wire mapping of the File's values; post-conditions on the File",
    "level_text": "Generated search with an independent parser as oracle: header, data size, both CRCs, definition-before-data, record lengths, size multiples, one data record per message in slot order, and the exact wire bytes of every field (model mapping, including string/array truncation and invalid padding) are checked on Encode's output for Files over all 17 file types, both byte orders and header sizes, including values outside the round-trip domain. The documented post-conditions on File.Header/CRC are asserted.",
    "level_note": "Trusted: harness/fitmodel.Parse and the bitwise CRC; the mapping File value -> wire bytes (strings cut to length-1 and NUL padded, arrays cut/padded to the profile length, local times as wall-clock seconds). An Encode error with nothing written is outside this property (counted).",
    "quick": {"checks": 3000, "timeout": 300, "shrinktime": "10s"},
    "thorough": {"checks": 100000, "timeout": 1500, "shards": 8, "shrinktime": "30s"},
    "rule": "a quarter of the Files carry stale header CRC, data size and file CRC values from an earlier life. two files in five are encoded right after an Encode call that fails (the same File with a non-UTF-8 string, or into a writer that refuses data after 9 bytes). big-file: activities with 2300 and 4700 records (data sections beyond 64 and 128 KiB) in both byte orders; local timestamps are drawn in fixed zones and in ten tz-database Locations (daylight saving, 30-minute shifts, changed standard offsets); strings include U+FFFD and the first/last code point of each UTF-8 length. one file in six has a long slot (256-600 sparse messages, a field of their own on messages 255/256/511/512/first/last). files: rapid GenFile (file type, header size, protocol, byte order, 0..4 messages per slice slot, each field set with probability 25-50% to boundary-biased values, strings and arrays sometimes longer than the profile length); non-trivial = a slice slot holding at least 2 messages with different sets of set fields (group definition is a proper union); distinct by fingerprint of the spec. empty+all-invalid: every file type x header size x byte order, empty and with one all-invalid message per slot.",
    "assumptions": ["fitmodel.Parse implements the FIT file grammar", "Files are built with NewHeader/NewFile/NewXMsg and exported fields only"],
}
CONF["C06"] = {
    "pkg": "c06",
    "level": "exploration",
    "technique": "round-trip Decode(Encode(file)) on rapid-generated in-domain Files plus a deterministic per-field boundary sweep, compared up to the equivalences the property states, component destinations against the expansion model",
    "level_text": "Generated search with the identity (up to the stated equivalences) as oracle: in-domain Files over all file types and both byte orders are encoded, decoded and compared field for field; arrays modulo trailing invalid padding, local times by wall clock, component destinations against the C18 model applied to the input. A sweep sets every field of every slot to in-domain boundary values one at a time.",
    "level_note": "Trusted: the executable domain clause (valid UTF-8 without NUL up to length-1 bytes, arrays up to the profile length, seconds 1..2^32-2, valid coordinates, set scalars avoid the invalid pattern), the expansion model. Accumulated component destinations are compared here too; disagreements explained by open findings D10/D11/K1 are excluded and counted.",
    "quick": {"checks": 3000, "timeout": 300, "shrinktime": "10s"},
    "thorough": {"checks": 100000, "timeout": 1500, "shards": 8, "shrinktime": "30s"},
    "rule": "boundary: 91 Files x 2 byte orders whose encoding exceeds 4096 bytes, sized so that the definition of a later slot starts at consecutive offsets around the boundary; one generated file in six has a long slot (256-600 messages). sweep: one File per (slot of a file type, field, in-domain boundary value, byte order) - distinct by construction. files: rapid GenFile restricted to the representable domain; non-trivial = at least one array, string, local time or negative value set; distinct by fingerprint of the spec.",
    "assumptions": ["domain clause as listed in level_note", "component expansion model of harness/fitmodel/expand.go"],
}

CONF["C07"] = {
    "pkg": "c07",
    "level": "exploration",
    "technique": "re-encode / fix-point relation on repository files, rapid-generated accepted streams and structurally mutated inputs with repaired framing; native go fuzzing behind a framing layer in the thorough tier",
    "level_text": "Generated search with a metamorphic oracle: whatever Decode accepts is encoded, integrity-checked, decoded again and compared field by field with the first generation (strings/arrays cut to the profile lengths, arrays modulo invalid padding, local times by wall clock), then once more for the fix-point. Inputs: all repository .fit files, generated well-formed streams, and mutants whose size/CRC framing is repaired so mutations reach the record logic. Disagreements that are exactly an open finding are excluded and counted; everything else is a violation.",
    "level_note": "Trusted: the comparator's equivalences are the ones the property names. Open findings D9, D13, D15, D16, K1 (and D10/D11 where accumulated destinations are involved) are excluded by signature; each is reproduced by a dedicated input on every run.",
    "quick": {"checks": 2500, "timeout": 400, "shrinktime": "10s"},
    "thorough": {"checks": 60000, "timeout": 2400, "shards": 8, "shrinktime": "30s", "fuzz": {"target": "FuzzReencode", "seconds": 150}},
    "rule": "a quarter of the inputs (chosen by their last byte) are re-encoded right after an Encode call that fails. wide: every message type of 30+ fields with all its fields on the wire, both byte orders; one stream in six draws definitions with up to 130 fields. corpus: every .fit file under testdata (quick: up to 200 kB) x both output byte orders. streams: rapid GenStream, accepted by construction. mutants: structural mutations of generated streams and parsed corpus files, framing repaired. non-trivial = Decode accepted the input (and, for generated streams, it has at least one message beyond file_id); distinct by fingerprint of the input bytes. Cases are vacuous when Decode rejects the input (counted in evaluations only).",
    "assumptions": ["strings compare up to the longest whole-character prefix that fits length-1 bytes; arrays up to the profile length"],
}

CONF["C04"] = {
    "pkg": "c04",
    "level": "fault_enumeration",
    "exhaustive_claim": False,
    "technique": "fault enumeration: every admissible bit position x burst patterns (<=16 bits) on rapid-generated valid files, judged by the CRC burst-detection theorem; generated header fields judged by an independent header verdict across all header-checking APIs",
    "level_text": "Fault enumeration over valid files (Encode output and generated streams, 12/14 byte headers, stored header CRC set or zero): every bit position whose burst window avoids header byte 0 and bytes 4-7, crossed with 49 burst patterns per position (thorough: all 32768 patterns on four short files, 1000+ patterns elsewhere); Decode and CheckIntegrity must both fail, which a correct CRC-16 guarantees for any burst of at most 16 bits. Header verdicts: generated header fields with correct / zero / wrong CRC, six API calls must equal an independent verdict.",
    "level_note": "Trusted: CRC-16 with a degree-16 generator detects every burst of length <= 16 (so a correct implementation has no excuse); harness bitwise CRC; the independent header verdict 'size 14 and stored != 0 and stored != CRC(first 12 bytes), or unsupported protocol major, or data type != .FIT'. Header sizes other than 12/14 are outside the domain of Header.CheckIntegrity here.",
    "quick": {"checks": 24, "timeout": 400, "shrinktime": "10s"},
    "thorough": {"checks": 400, "timeout": 2400, "shrinktime": "30s"},
    "rule": "encoded: 12 Files per rapid case (two thirds with stale Header.CRC / DataSize / CRC values) are encoded and must pass Decode, CheckIntegrity(false/true) under every standard chunking. bits are numbered in the order the reflected CRC and a serial link process them (least significant bit of each byte first). bursts: each rapid case draws one valid file (<= 700 bytes) and enumerates every admissible (bit position, burst pattern) pair on it, plus every 1- and 2-byte window overwritten with 0x00 and 0xFF: 16 solid runs, 15 end-points-only runs and 17 position-seeded patterns of length 3..16; each corrupted image is distinct (different error polynomial) and non-trivial (it differs from the valid file); counted by the enumerator, split by region (header, header/data boundary, records, data/crc boundary, file crc). bursts-all (thorough): all 32768 patterns with first and last bit set. headers: 100 generated headers per rapid case; non-trivial = 14-byte header with a wrong non-zero CRC; header-grid: sizes x 7 protocol bytes x 4 data types x 3 CRC modes.",
    "assumptions": ["burst-error detection theorem for CRC-16 (generator x^16+x^15+x^2+1 has a non-zero constant term)"],
}

CONF["C10"] = {
    "pkg": "c10",
    "level": "exploration",
    "technique": "rapid-generated valid files and chains read through a counting chunking reader followed by sentinel bytes; exact frame arithmetic as oracle, differential DecodeChained vs Decode, chunking invariance",
    "level_text": "Generated search: valid files (Encode output, generated streams incl. ones larger than the 4096-byte buffer, repository files) alone and in chains of up to 4, read through whole/1-byte/fixed/list/data+EOF chunkings with a reader that counts exactly what the library consumes. Oracles: consumed == header+data size+2 on success, never more on failure (corrupted variant), header-only calls consume exactly the header, DecodeChained == per-file Decode, DecodeHeader/DecodeHeaderAndFileID == Decode's header and file_id, results invariant under chunking.",
    "level_note": "Trusted: the counting reader sits directly under the library (no read-ahead layer in between); files carry exactly one file_id message. Record.Distance from compressed_speed_distance is left out of chain-vs-single comparisons while finding K1 is open.",
    "quick": {"checks": 700, "timeout": 400, "shrinktime": "10s"},
    "thorough": {"checks": 20000, "timeout": 2400, "shards": 8, "shrinktime": "30s"},
    "rule": "aligned: data sizes 4096, 8192, 12288, 32768, 65536 each -3..+3 bytes (filler records in front of a fixed stream) x 6 standard chunkings x alone/doubled with 5000 sentinel bytes; one generated file in ten is sized the same way. chains: 1..4 valid files x a drawn chunking x 0..20 sentinel bytes (15%+ with a byte of the first data area corrupted = failing-decode variant); non-trivial = a chain of at least 2 files read with a chunking that does not respect frame boundaries, or a file larger than the decoder's 4096-byte buffer; distinct by fingerprint of (files, chunking). corpus: every repository file that is one valid frame x 6 standard chunkings x alone/doubled.",
    "assumptions": ["gen.Reader counts delivered bytes exactly"],
}
CONF["C11"] = {
    "pkg": "c11",
    "level": "fault_enumeration",
    "technique": "fault enumeration: every cut offset and every read-fault offset (two fault styles) of rapid-generated single and chained streams and of repository files, through all six entry points; need(entry) model and complete-record model from the reference interpreter as oracle",
    "level_text": "Fault enumeration: for generated single and chained streams every byte offset is used as a clean cut, as a (0,err) fault and as an (n>0,err) fault, under three chunkings, for Decode, DecodeChained, CheckIntegrity (both modes), DecodeHeader and DecodeHeaderAndFileID; repository files are cut/faulted at every offset within 3 bytes of a record boundary plus a stride. The oracle says which entry points must fail (offset < bytes the entry point needs), the single exception (clean EOF on a chain boundary), and exactly which messages a partial File must contain (reference interpreter run on the records complete before the offset).",
    "level_note": "Trusted: harness stream layout (record end offsets) and reference interpreter; need(entry) = header size / end of first file_id record / frame / whole chain (+ clean EOF for faults). For offsets at or beyond need the call must succeed (reading of 'every entry point returns an error' that does not blame DecodeHeader for a cut in the data area).",
    "quick": {"checks": 10, "timeout": 400, "shrinktime": "10s"},
    "thorough": {"checks": 600, "timeout": 2400, "shards": 8, "shrinktime": "30s"},
    "rule": "fault modes: (0, err), (n>0, err), and (0, io.ErrUnexpectedEOF) - a reader whose own error value is io.ErrUnexpectedEOF; a fifth of the chunkings also return empty reads. streams: each rapid case draws 1..3 generated streams (chained) and enumerates every offset 0..len x {cut, fault, fault-with-data} x 6 entry points; each (stream, offset, mode) is distinct and counted non-trivial; offsets are classified (inside a header, a definition, a data record, the file CRC, on a record boundary, on a chained file boundary, first byte of a later header). corpus: repository files <= 3000 bytes (thorough 60000) at every offset within +-3 of a record end, the first/last 16 bytes and a stride of 97.",
    "assumptions": ["reference interpreter + layout give the set of records complete before an offset"],
}

CONF["C12"] = {
    "pkg": "c12",
    "level": "exploration",
    "technique": "rapid-generated timestamp / compressed-header / local-time sequences compared with a model of the FIT time rules (reference interpreter), plus a deterministic sweep of second counts",
    "level_text": "Generated search against a model of the time rules that shares no code with the decoder: streams biased to explicit timestamps (values near 5-bit rollovers, below/above the system-time marker, 0, 0xFFFFFFFF), runs of compressed-timestamp records on local types 0-3 (also of unknown messages), other date_time fields that must not re-base, and local_date_time fields with and without a reference, in both byte orders; every time field of every decoded message is compared.",
    "level_note": "Trusted: the time model in harness/fitmodel/interp.go. Not decided (counted): compressed record before any non-zero reference; everything after a reference-less local timestamp until the next explicit one; sums that pass 2^32-1; narrower definitions carrying their own invalid pattern.",
    "quick": {"checks": 4000, "timeout": 300, "shrinktime": "10s"},
    "thorough": {"checks": 150000, "timeout": 1500, "shards": 8, "shrinktime": "30s"},
    "rule": "chained: every 4th stream is also decoded with DecodeChained as the second file of a chain whose first file left a timestamp reference behind. sequences: GenStream restricted to messages with time fields in activity/monitoring/schedules/course/weight files, 4..60 records, compressed headers on about half the records, time fields favoured; non-trivial = at least one 5-bit rollover, at least two re-bases and at least two decided compressed records in the same stream; distinct by fingerprint of the stream. arithmetic: 33 second counts x both byte orders through timestamp, another date_time, a compressed record and a local timestamp.",
    "assumptions": ["time model of harness/fitmodel/interp.go"],
}
CONF["C13"] = {
    "pkg": "c13",
    "level": "exploration",
    "technique": "rapid state machine (define / data / compressedData / dataUndefined over the 16 local types) with the reference interpreter's slot model as invariant after every step; metamorphic slot-independence check",
    "level_text": "Stateful generated search: histories of definitions, redefinitions (other message, field list, sizes, byte order), data records and compressed-header records over all 16 local types are built step by step; after every step the whole stream is decoded and compared with a model that keeps its own 16 definition slots. A data record on a never-defined local type must fail and leave exactly the earlier messages. Metamorphic: inserting a definition of a local type no later record uses never changes the decoded messages.",
    "level_note": "Trusted: reference interpreter slot model; messages are chosen among those the file type holds so that values are observable.",
    "quick": {"checks": 1200, "timeout": 300, "shrinktime": "10s", "steps": 40},
    "thorough": {"checks": 40000, "timeout": 1800, "shards": 8, "shrinktime": "30s", "steps": 60},
    "rule": "undefined also covers the first data record of a file: all 16x15 (file_id local type, other local type) pairs with normal headers and the compressed forms. long-lived: up to 30 (thorough 400) streams in which 1-3 local types are defined once and used throughout while the other local types are redefined until the file holds 800..12500 field definitions; non-trivial = more than 4096 field definitions in one file. machine actions also include redefineVariant (same definition with only the byte order flipped / one field dropped / field list reversed); chained-undefined: 20 two-file chains in which the second file uses a local type only the first defined. machine: rapid t.Repeat over actions define(local 0-15), data(defined local), compressedData(defined local 0-3), dataUndefined (ends the history), invariant = decode-and-compare after each step (each invariant run is one evaluation); non-trivial history = at least 3 local types defined, a redefinition that changes message or byte order, and a compressed header on local type 1-3; distinct by fingerprint of the final stream. undefined: the 16+4 never-defined local types. slot-independence: one inserted definition per history.",
    "assumptions": ["reference interpreter"],
}
CONF["C16"] = {
    "pkg": "c16",
    "level": "exploration",
    "technique": "differential over all 8 decode option sets on rapid-generated streams with unknown items and part-way failures (undefined local type, truncation, bad CRC), with model tallies for the unknown-item counts",
    "level_text": "Generated search: each stream (unknown messages, unknown fields of known and of unknown messages, developer fields; one in three made to fail part-way) is decoded under all 8 combinations of logger / unknown-fields / unknown-messages and a drawn chunking; messages, error text and bytes consumed must be identical, logger output only with a logger, lists only when requested, sorted, duplicate free, and the counts equal to the reference interpreter's tallies (on failure: between the tally of completed records and that plus the record in progress).",
    "level_note": "Trusted: reference interpreter tallies (unknown message = data record of a message number absent from the profile; unknown field = record of a known message carrying a field number not listed).",
    "quick": {"checks": 2500, "timeout": 300, "shrinktime": "10s"},
    "thorough": {"checks": 60000, "timeout": 1500, "shards": 8, "shrinktime": "30s"},
    "rule": "every well-formed stream is also decoded twice in one DecodeChained call with option sets 110 and 111: both files must report the unknown lists a single Decode reports, and the logger must see both. options: GenStream (1..20 records) x drawn chunking x failure mode (none / undefined local type inserted / cut at a drawn offset / bad CRC) decoded under the 8 option sets (8 evaluations per case); non-trivial = the stream has at least one unknown message and at least one unknown field of a known message; distinct by fingerprint of (stream, chunking, failure mode).",
    "assumptions": ["reference interpreter tallies"],
}

CONF["C18"] = {
    "pkg": "c18",
    "level": "exploration",
    "technique": "rapid-generated component-bearing streams decoded as 1-4 files per process history, compared with a bit-slice / per-file accumulator model; fresh-process cases for the accumulated destinations; exact emulation of the known defects so that only they are excluded",
    "level_text": "Generated search against a component model written from the property text: record/lap/session/segment_lap/event messages in every container that holds them, sources with boundary and random bit patterns (high bytes, invalid, rollovers of the 12/8/16-bit accumulated sources), several files decoded one after another in the same process, and accumulated destinations additionally as the first call of a fresh process. Every destination field is compared; an invalid source must leave the destination as the wire had it.",
    "level_note": "Trusted: harness/fitmodel/expand.go (component rules, message and event numbers of the FIT profile). Chained expansion compressed_speed_distance -> speed -> enhanced_speed is not asserted; a compressed_speed_distance that is not 3 bytes long and radar threat events are not decided. Open findings D10 (got must be exactly 0), D11 and K1 (got must equal an emulation of the 8-bit truncation and of the process-wide accumulator over this process's decode history) are excluded only when they match exactly.",
    "quick": {"checks": 2500, "timeout": 300, "shrinktime": "10s"},
    "thorough": {"checks": 80000, "timeout": 1800, "shards": 8, "shrinktime": "30s"},
    "rule": "presence: for every message with components in every file type that holds it, streams with all its sources on the wire and its destinations absent / all present with valid values / present except one, both byte orders, five event kinds (318 streams). a quarter of the streams declare fields with narrower compatible base types. histories: 1..4 generated streams (file types activity, course, activity summary, segment; messages with components only; component sources/destinations favoured; event kinds biased to sport_point / gear changes) decoded in sequence in one process, each compared with the per-file model; non-trivial = a source with a bit above the low byte (or a distance high nibble), a rollover of an accumulated source, and at least 2 files in the history; distinct by fingerprint of the streams. fresh-process: the test binary re-executes itself and decodes one activity file with 3-7 records carrying all three accumulated sources as its first library call.",
    "assumptions": ["component rules as summarised in the property text; FIT profile numbers session=18 lap=19 record=20 event=21 segment_lap=142, sport_point=33, front/rear gear change=42/43"],
}

CONF["C17"] = {
    "pkg": "c17",
    "level": "exploration",
    "exhaustive_claim": True,
    "technique": "exhaustive enumeration of the 32-bit domains (thorough: all 2^32 semicircles for both coordinate types and all 2^32 second counts; quick: every 257th plus boundaries) against closed-form arithmetic",
    "level_text": "The property quantifies over finite 32-bit domains, so the thorough tier enumerates them completely through the public constructors and methods (and the hook's time conversion pair) against closed-form oracles: validity, Semicircles, exact Degrees, degrees round trip within one semicircle, printed form within 2e-5, time bijection, monotonicity, IsBaseTime. The quick tier samples every 257th value plus all boundaries. A few values also go through Encode/Decode as fields.",
    "level_note": "Trusted: float64 arithmetic s*180/2^31 is exact (39 significant bits); the hook exports decodeDateTime/encodeTime unchanged. Latitude exactly +90 degrees (2^30 semicircles) is not decided: property text says outside +-90, documentation and an existing unit test exclude it (counted as undecided).",
    "quick": {"checks": 1, "timeout": 300},
    "thorough": {"checks": 1, "timeout": 3000},
    "rule": "the printed form is also checked at +-80 semicircles around every whole degree. each enumerated 32-bit value is a distinct case and counted non-trivial (every value exercises validity + conversion); quick: stride 257 over each of the three spaces plus +-3 around 0, +-2^30, 2^31, the sentinel 0x7FFFFFFF, 2^29, 2^32-1, 0x10000000; thorough: every value, printed form included.",
    "assumptions": ["closed-form oracles as stated in the property"],
}

CONF["C15"] = {
    "pkg": "c15",
    "level": "exploration",
    "exhaustive_claim": True,
    "technique": "exhaustive enumeration of the generated tables through the read-only hook (all 65536x256 lookups, every entry, every constructor, every container slot) against the FIT base-type model and reflection on the public message types; independent reading of the bundled SDK workbook for the field-number mapping",
    "level_text": "The tables are finite, so the check enumerates them completely on every run: each lookup entry must name a distinct in-range struct field whose Go type matches base type / array flag / kind, whose constructor value is the model's invalid value, whose encoded size fits a byte; every struct field must have an entry; every known message must have type, constructor and reverse lookup; every container slot type must be known. One decode per entry and one encode per file type with all fields set confirm the reflection paths dynamically. The field-number mapping is compared row by row with an independent XML reading of SDK workbook 21.40 (thorough: all five bundled workbooks).",
    "level_note": "Trusted: the hook copies the table entries verbatim; fitmodel base type table. The declared SDK 21.115 workbook is not available offline: 756 of the 779 entries are cross-checked against 21.40, the other 23 only for internal consistency (stated in the evidence).",
    "quick": {"checks": 1, "timeout": 300},
    "thorough": {"checks": 1, "timeout": 600},
    "rule": "dynamic also decodes, for every known message number, two compressed-timestamp records after a full timestamp, with a zero-field definition and with the message's first field at full width (big-endian). every table entry is a distinct case and counted non-trivial (it exercises index, type, invalid value and size rules); lookups: all 16.7M (message number, field number) pairs; dynamic: one single-field stream per entry and byte order, one all-fields File per file type and byte order; sdk: one comparison per enabled workbook row.",
    "assumptions": ["hook export is faithful", "independent workbook reader (harness/wb) reads the Messages and Types sheets correctly (it agrees with the generator's goldens on all five workbooks)"],
}
CONF["C20"] = {
    "pkg": "c20",
    "pregen": [["go", "run", "./tools/gentypes", "{repo}/types.go", "c20/zz_types_test.go"]],
    "level": "exploration",
    "exhaustive_claim": True,
    "technique": "exhaustive enumeration of every named constant (table generated at check time from types.go with go/types) and of all non-constant 8-bit values, rapid-drawn wide values; byte-for-byte regeneration of types_string.go with the repository's own stringer",
    "level_text": "The constants are a finite set: a table of every integer type and named constant is generated from /repo/types.go at check time (go/parser + go/types constant evaluation) and String() is called on every constant and on every other value of every 8-bit type; 16/32-bit types are probed at neighbours of constants, powers of two and rapid-drawn values. The checked-in string tables are regenerated with the repository's forked stringer and compared byte for byte; the type list must equal the file's header.",
    "level_note": "Trusted: go/types constant evaluation; 'name without the type prefix' = strings.TrimPrefix(constant name, type name). Bool (types_man.go) is hand-written and outside 'generated FIT type'.",
    "quick": {"checks": 50, "timeout": 300},
    "thorough": {"checks": 5000, "timeout": 900},
    "rule": "concurrent: 3 (thorough 40) child processes in which 8 goroutines print every value of every 8- and 16-bit type and the constants +-1 and powers of two of wider types at the same time, as the first String calls of the process; a wrong string or a crash of the child is a violation. constants: each (type, named constant) once; other-values: every non-constant value of 8-bit types, +-1 around constants, 2^k and 2^k-1 for wider types - distinct by construction. wide-values: 200 rapid-drawn (type, value) pairs per rapid case, half of them within 3 of a constant; distinct by fingerprint. regeneration: one run of the repository's stringer.",
    "assumptions": ["go/types evaluates the constants as the compiler does"],
}

CONF["C08"] = {
    "pkg": "c08",
    "level": "exploration",
    "technique": "rapid state machine over call histories (decode with/without options, chained decode, integrity, header+file_id, encode in both orders, repeat-last) on a fixed input pool; oracle = the same call made as the first library call of a fresh process",
    "level_text": "Stateful generated search with a differential oracle across processes: before the histories run, the test binary re-executes itself once per (call, input) so that the call is the first library call of a fresh process, and records a digest of everything the call returns (decoded content, error text, Encode's bytes and the File's header/CRC afterwards). Every step of every generated history must reproduce that digest; Encode baselines are taken in two separate processes and must agree.",
    "level_note": "Trusted: the digest covers everything observable through the public surface. record.distance derived from compressed_speed_distance is left out while finding K1 is open (K1 is reproduced by a dedicated two-call history on every run).",
    "quick": {"checks": 150, "timeout": 400, "shrinktime": "10s", "steps": 30},
    "thorough": {"checks": 4000, "timeout": 2400, "shards": 8, "shrinktime": "30s", "steps": 60},
    "rule": "call kind header (DecodeHeader); the pool has twin inputs (a definition the profile rules out for messages 20, 18, 34, 21, 0 and the same definition for the unknown messages 256 and 0xFF00 above them). call kinds chainedopts (DecodeChained with the shared option values) and decodelogger (Decode with a debug logger whose output is discarded). the pool also holds 20 inputs that are rejected at each decoding stage (cut inside the header after a legal size byte, at its end, inside the records, inside the CRC; illegal size byte; wrong CRC) and the call kind decodefault (Decode through a reader that fails with an error of its own, different per input, after 1..200 bytes; the result records the text and errors.Is against that cause). call kinds also include encodebad (a File with a non-UTF-8 string: Encode fails part-way) and encodefw (a writer that refuses the data); decode-with-options calls share one package-level options slice; the pool also holds 8 streams whose local timestamps differ in zone offset by seconds, out-of-domain Files and byte arrays longer/shorter than the profile length. pool (drawn from the seed): repository files up to 6 kB, 16 generated streams, 4 streams with accumulating component sources, 4 chains, 12 generated Files. histories: rapid t.Repeat over the 6 call kinds + repeatLast with drawn inputs, each step compared with its fresh-process baseline (one evaluation per step); non-trivial = a history of at least 3 calls in which a call is preceded by a different call; distinct by fingerprint of the op list. encode-across-processes: every (File, order) in a second fresh process.",
    "assumptions": ["a freshly started process has no library state"],
}
CONF["C09"] = {
    "pkg": "c09",
    "race": True,
    "level": "exploration",
    "technique": "rapid-generated goroutine programs (2-16 goroutines x 5-40 calls, GOMAXPROCS 2/4/16) executed under the Go race detector in a worker process; oracle = sequential baseline digests + empty race log (campaign A) / only finding K1 in the race log (campaign B)",
    "level_text": "Generated concurrent programs over the C08 call vocabulary on independent readers, writers and Files, run in a race-instrumented worker process. Every call's result digest must equal the single-goroutine baseline and the race detector must stay silent. The race detector generalises each sampled schedule by happens-before, so a report does not need the unlucky interleaving itself; it is still a sample of schedules, not all interleavings.",
    "level_note": "Trusted: Go race detector (no false positives); the program keeps inputs independent by construction (each call builds its own reader/File). Campaign A draws only inputs that do not feed the package-level component accumulators: any race report there is a violation. Campaign B draws inputs that do; a report whose two access stacks both start in uint32Accumulator.accumulate / RecordMsg.expandComponents is finding K1, anything else is a violation.",
    "quick": {"checks": 8, "timeout": 600, "shrinktime": "20s"},
    "thorough": {"checks": 500, "timeout": 3000, "shrinktime": "60s"},
    "rule": "call kind header (DecodeHeader) and the twin inputs of C08. focused: one program per input family (local timestamps, generated streams, rejected inputs, chains, repository files, accumulating streams) with all 8 goroutines on inputs of that family. inputs include the 20 rejected-at-each-stage inputs and the decodefault call kind of C08 (calls that fail inside the header overlap in almost every program). every program runs in a fresh worker process in which it is the first use of the library (the sequential baseline is computed afterwards); call kinds as in C08, including failing Encode calls and shared option values. each rapid case is one program: G in 2..16 goroutines, each 5..40 calls drawn from the 6 call kinds on pool inputs (campaign A: inputs without accumulating sources, B: with), released together by a barrier under a drawn GOMAXPROCS; all programs are counted non-trivial only if distinct by fingerprint; the class 'program with overlapping same-kind calls' (measured with per-call timestamps) shows how many actually overlapped.",
    "assumptions": ["race detector soundness for the executed schedules", "schedules are sampled by the Go scheduler"],
}

CONF["C19"] = {
    "pkg": "c19",
    "level": "exploration",
    "technique": "rapid-generated dependency-closed product-profile selections of the five bundled workbooks, run through the real fitgen command twice (xlsx and SDK-zip input); oracles: exit status, byte determinism, declared version, go/types type-check located in generated files, row-by-row comparison with an independent XML reading of the workbook",
    "level_text": "Generated search over product profiles: a drawn set of enabled rows is disabled, closed under the two dependency rules (component targets, sub-field reference fields) by re-enabling (construction, not rejection), written into a copy of the workbook by removing EXAMPLE cells, and the real command is run twice. The output must exist, be byte-identical across runs, declare the requested version, parse, type-check together with every hand-written library file without any error located in a generated file, and contain for every message exactly the enabled rows as struct fields in workbook order with _fields entries {position, number, type code, length} equal to an independent reading of the row, and nothing for disabled rows.",
    "level_note": "Trusted: harness/wb (zip/XML reader independent of tealeg/xlsx), its reading of names, base types, array flags, lengths and kinds; go/types. 'Compiles together with the support code' is decided on the generated side only: even the stock workbooks do not build with today's file_types.go (it needs messages of SDK 21.115), so type errors located in hand-written files are counted, not judged. Flags -timestamp and -test are not part of the property; -hrst is exercised (it changes which rows count as enabled).",
    "quick": {"checks": 2, "timeout": 600, "shrinktime": "30s"},
    "thorough": {"checks": 40, "timeout": 3000, "shrinktime": "120s"},
    "rule": "a quarter of the drawn selections and one cover selection per workbook run with -hrst and the heart_rate_source_type rows disabled (the flag keeps those rows). of the two runs on every selection the first writes into an empty directory and the second over existing, longer generated files (the repository's own, padded with comment lines to 1.5 MB); the outputs must be byte-identical. cover: 3 selections per workbook (row number mod 3, plus everything depending on a disabled row) that together disable every enabled row once; input forms xlsx + -sdk, SDK zip, SDK zip named for another release + -sdk. stock: the 5 workbooks x {xlsx with -sdk, FitSDKRelease zip}. selections: 8 per rapid case, each = workbook x mode (a few rows / a share of 5-60% of all rows / most of one message / rows involved in dependencies) closed under dependencies; non-trivial = at least one row disabled and at least one dependency re-enabled by the closure; distinct by fingerprint of (version, disabled rows).",
    "assumptions": ["dependency model: component targets and sub-field reference fields of enabled rows (validated: single-row disabling of workbook 21.40 fails for exactly those rows)"],
}

NOT_APPLICABLE = {}
