"""Static per-property configuration of the driver: package, budgets, level,
and the 'rule' / 'assumptions' texts that go into the evidence files. All
counts in the evidence are measured by the Go test binaries at run time."""

CONF = {
    "C14": {
        "pkg": "c14",
        "level": "exploration",
        "exhaustive_claim": True,
        "technique": "exhaustive enumeration of the CRC transition function + rapid-generated write partitions against a bit-serial reference",
        "level_text": "All 16.7M (state, byte) transitions of the streaming checksum are enumerated through the public API against a bit-serial CRC-16/ARC written from the definition, which by induction on the input length covers every byte sequence and every split into writes; generated partitions, Reset and the residue rule are sampled on top. Exhaustive for the transition function, sampled for the API plumbing.",
        "level_note": "Trusted: the 10-line bit-serial reference in harness/fitmodel/base.go; that Write processes bytes one at a time in order (enumerated per byte, sampled for multi-byte writes).",
        "quick": {"checks": 3000, "timeout": 120},
        "thorough": {"checks": 300000, "timeout": 600},
        "rule": "enumerated: every (16-bit register state, input byte) pair, the state reached through the public API "
                "by a 2-byte prefix (bijection computed with the bit-serial reference); each pair is distinct and counted "
                "non-trivial. generated: byte strings of 0..5000 bytes with 0..8 write boundaries (empty writes allowed) "
                "and a Reset point; non-trivial = at least 3 write pieces, distinct by fingerprint of (data, cuts, reset). "
                "oracle: bit-serial CRC-16/ARC (poly 0xA001 reflected, init 0) written from the definition.",
        "assumptions": ["the bit-serial reference CRC in harness/fitmodel is CRC-16/ARC (checked against the standard check value 0xBB3D for '123456789' by the harness self test)"],
    },
}

NOT_APPLICABLE = {}
