#!/usr/bin/env python3
"""Prints the markdown table of DESIGN.md section 9 from seeded/index.json and the meta.json files."""
import json, os
V = os.path.dirname(os.path.abspath(__file__))
idx = json.load(open(os.path.join(V, "seeded", "index.json")))
print("| seed | property | change (written without access to /verif) | needs, to manifest | reported by (quick tier) | missed at first by -> what was strengthened |")
print("|---|---|---|---|---|---|")
for e in idx:
    m = json.load(open(os.path.join(V, "seeded", e["seed"], "meta.json")))
    rep = ", ".join(r["check"] for r in m["ran"] if r["detected"]) or "-"
    miss = ", ".join(r["check"] for r in m["ran"] if not r["detected"])
    if miss:
        rep += " (not: %s)" % miss
    print("| %s | %s | %s | %s | %s | %s |" % (e["seed"], e["property"], e["what"], e["needs"], rep, e.get("first_missed_by") or ""))
