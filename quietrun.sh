#!/bin/sh
# Runs every quick check at several seeds on the unchanged tree; prints any run that is not exit 0.
# usage: quietrun.sh "2 3 4 5" [tier]
cd "$(dirname "$0")"
tier=${2:-quick}
for seed in $1; do
  for id in C01 C02 C03 C04 C05 C06 C07 C08 C09 C10 C11 C12 C13 C14 C15 C16 C17 C18 C19 C20; do
    out=$(VERIF_SEED=$seed ./check $id --tier $tier 2>&1); rc=$?
    if [ $rc -ne 0 ]; then echo "seed=$seed $id rc=$rc"; echo "$out" | grep -v KNOWN-FINDING | tail -15; fi
  done
  echo "seed $seed done"
done
git checkout -q evidence 2>/dev/null
