#!/usr/bin/env python3
"""Sensitivity self-test (DESIGN.md section 5): applies hand-written breaking
changes to a scratch copy of /repo (outside /repo and /verif), points the
checks at it through VERIF_REPO and expects exit 1; the copy is deleted
afterwards. Also re-checks that each mutant still compiles and (optionally)
passes the repository's own tests.

usage: selftest.py [--only NAME_SUBSTR] [--tier quick|thorough] [--tests] [--write-patches] [--jobs N]
"""
import argparse
import concurrent.futures
import json
import os
import shutil
import subprocess
import sys
import tempfile

V = os.path.dirname(os.path.abspath(__file__))
ENV = dict(os.environ, GOFLAGS="-mod=mod", GOPROXY="off", GOSUMDB="off", GOTOOLCHAIN="local")

# name -> (expected catching properties, [(file, old, new), ...], what)
MUTANTS = json.load(open(os.path.join(V, "mutants", "mutants.json")))


def run_mutant(m, tier, tests, write_patches):
    name = m["name"]
    scratch = tempfile.mkdtemp(prefix="verif-mut-", dir="/tmp")
    res = {"name": name, "expect": m["expect"], "caught_by": [], "missed_by": [], "notes": []}
    try:
        repo = os.path.join(scratch, "repo")
        subprocess.run(["git", "clone", "-q", "--no-hardlinks", "/repo", repo], check=True)
        for e in m["edits"]:
            p = os.path.join(repo, e["file"])
            s = open(p).read()
            if e["old"] not in s:
                res["notes"].append("edit does not apply: %s" % e["file"])
                return res
            s = s.replace(e["old"], e["new"], e.get("count", 1))
            open(p, "w").write(s)
        if write_patches:
            d = subprocess.run(["git", "-C", repo, "diff"], capture_output=True, text=True).stdout
            open(os.path.join(V, "mutants", name + ".patch"), "w").write(d)
        b = subprocess.run(["go", "build", "./..."], cwd=repo, env=ENV, capture_output=True, text=True)
        if b.returncode != 0:
            res["notes"].append("mutant does not build: " + b.stderr[-300:])
            return res
        if tests:
            t = subprocess.run(["go", "test", "-vet=off", "-count=1", "./..."], cwd=repo, env=ENV, capture_output=True, text=True)
            res["tests_pass"] = t.returncode == 0
            if t.returncode != 0:
                res["notes"].append("repository tests FAIL with this mutant (it would be caught by the existing suite)")
        for pid in m.get("expect_clean", []):
            env = dict(ENV, VERIF_REPO=repo, VERIF_REPLAY_DIR=os.path.join(scratch, "replays"))
            p = subprocess.run([os.path.join(V, "check"), pid, "--tier", tier], cwd=V, env=env, capture_output=True, text=True)
            if p.returncode == 0:
                res["caught_by"].append(pid + "(quiet, as required)")
            else:
                res["missed_by"].append(pid + "(FALSE ALARM on a behaviour-preserving change)")
                res["notes"].append(p.stdout[-400:])
        for pid in m["expect"]:
            env = dict(ENV, VERIF_REPO=repo, VERIF_REPLAY_DIR=os.path.join(scratch, "replays"))
            p = subprocess.run([os.path.join(V, "check"), pid, "--tier", tier], cwd=V, env=env, capture_output=True, text=True)
            if p.returncode == 1 and "VIOLATION property=%s" % pid in p.stdout:
                res["caught_by"].append(pid)
            else:
                res["missed_by"].append(pid)
                res["notes"].append("%s rc=%d: %s" % (pid, p.returncode, p.stdout.strip().splitlines()[-1:] ))
    finally:
        shutil.rmtree(scratch, ignore_errors=True)
    return res


def main():
    ap = argparse.ArgumentParser()
    ap.add_argument("--only")
    ap.add_argument("--tier", default="quick")
    ap.add_argument("--tests", action="store_true")
    ap.add_argument("--write-patches", action="store_true")
    ap.add_argument("--jobs", type=int, default=3)
    args = ap.parse_args()
    todo = [m for m in MUTANTS if not args.only or args.only in m["name"]]
    results = []
    try:
        with concurrent.futures.ThreadPoolExecutor(max_workers=args.jobs) as ex:
            for r in ex.map(lambda m: run_mutant(m, args.tier, args.tests, args.write_patches), todo):
                results.append(r)
                status = "CAUGHT" if r["caught_by"] and not r["missed_by"] else ("PARTIAL" if r["caught_by"] else "MISSED")
                print("%-8s %-40s caught by %s missed by %s %s" % (status, r["name"], r["caught_by"], r["missed_by"], "; ".join(map(str, r["notes"]))))
                sys.stdout.flush()
    finally:
        pass
    # alt modfiles / binaries built for the scratch trees
    for f in os.listdir(os.path.join(V, ".build")):
        if f.startswith("alt-") or "-alt" in f:
            try:
                os.remove(os.path.join(V, ".build", f))
            except OSError:
                pass
    json.dump(results, open(os.path.join(V, "mutants", "last_selftest.json"), "w"), indent=1)
    missed = [r for r in results if r["missed_by"] or not r["caught_by"]]
    print("%d mutants, %d fully caught" % (len(results), len(results) - len(missed)))
    return 1 if missed else 0


if __name__ == "__main__":
    sys.exit(main())
