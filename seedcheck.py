#!/usr/bin/env python3
"""Confirms an independently written breaking change and runs checks on it.

usage: seedcheck.py <seed-id> <dir with patch.diff + demo> --property CXX [--checks C02,C06] [--tier quick]

Steps (all in a scratch clone of /repo under /tmp, removed afterwards):
  1. clone /repo, apply patch.diff, go build ./..., go test ./... (must pass)
  2. run the demonstration with the change (must fail) and without (must pass)
  3. run the named checks with VERIF_REPO pointing at the patched clone
Writes /verif/seeded/<seed-id>/{patch.diff, demo*, notes.md, meta.json}.
"""
import argparse
import glob
import json
import os
import shutil
import subprocess
import sys
import tempfile

V = os.path.dirname(os.path.abspath(__file__))
ENV = dict(os.environ, GOFLAGS="-mod=mod", GOPROXY="off", GOSUMDB="off", GOTOOLCHAIN="local")


def sh(cmd, cwd, timeout=1800, env=ENV):
    p = subprocess.run(cmd, cwd=cwd, env=env, shell=isinstance(cmd, str), capture_output=True, text=True, errors="replace", timeout=timeout)
    return p.returncode, (p.stdout + p.stderr)


def run_demo(repo, seeddir):
    """Returns (rc, tail). Supports demo_test.go (placed in the repo root, run
    by test name(s) found in it), demo.sh, or a demo directory with main.go."""
    demo = os.path.join(seeddir, "demo_test.go")
    if os.path.exists(demo):
        src = open(demo).read()
        import re
        names = re.findall(r"^func (Test\w+)\(", src, re.M)
        # demo_dir.txt (one line, optional): package directory, relative to
        # the repository root, the demo belongs to (default: the root package)
        sub = "."
        dd = os.path.join(seeddir, "demo_dir.txt")
        if os.path.exists(dd):
            sub = open(dd).read().strip() or "."
        dst = os.path.join(repo, sub, "zz_seed_demo_test.go")
        shutil.copy(demo, dst)
        race = ["-race"] if ("-race" in src) else []
        m = re.search(r"^//go:build (\w+)\s*$", src, re.M)
        if m:
            race += ["-tags", m.group(1)]
        try:
            rc, out = sh(["go", "test", "-vet=off", "-count=1", "-timeout", "300s"] + race + ["-run", "^(" + "|".join(names) + ")$", "./" + sub], repo)
        finally:
            os.remove(dst)
        return rc, out[-1500:]
    demo = os.path.join(seeddir, "demo.sh")
    if os.path.exists(demo):
        rc, out = sh(["sh", demo, repo], repo)
        return rc, out[-1500:]
    return None, "no demo found"


def main():
    ap = argparse.ArgumentParser()
    ap.add_argument("seed_id")
    ap.add_argument("dir")
    ap.add_argument("--property", required=True)
    ap.add_argument("--checks")
    ap.add_argument("--tier", default="quick")
    ap.add_argument("--needs", default="")
    args = ap.parse_args()
    checks = (args.checks or args.property).split(",")
    dest = os.path.join(V, "seeded", args.seed_id)
    os.makedirs(dest, exist_ok=True)
    if os.path.abspath(args.dir) != os.path.abspath(dest):
        for f in glob.glob(os.path.join(args.dir, "*")):
            if os.path.isfile(f) and os.path.basename(f) not in ("go.mod", "go.sum"):
                shutil.copy(f, dest)
    meta = {"seed": args.seed_id, "property": args.property, "needs_to_manifest": args.needs, "ran": []}
    scratch = tempfile.mkdtemp(prefix="verif-seed-", dir="/tmp")
    try:
        repo = os.path.join(scratch, "repo")
        subprocess.run(["git", "clone", "-q", "--no-hardlinks", "/repo", repo], check=True)
        # demo on the unchanged code
        rc0, out0 = run_demo(repo, dest)
        meta["demo_without_change"] = {"rc": rc0, "passes": rc0 == 0, "tail": out0[-400:]}
        rc, out = sh(["git", "apply", os.path.join(dest, "patch.diff")], repo)
        meta["patch_applies"] = rc == 0
        if rc != 0:
            meta["error"] = out[-500:]
            return finish(meta, dest)
        rc, out = sh(["go", "build", "./..."], repo)
        meta["builds"] = rc == 0
        rc, out = sh(["go", "test", "-vet=off", "-count=1", "./..."], repo)
        meta["existing_tests_pass"] = rc == 0
        if rc != 0:
            meta["existing_tests_tail"] = out[-600:]
        rc1, out1 = run_demo(repo, dest)
        meta["demo_with_change"] = {"rc": rc1, "fails": rc1 not in (0, None), "tail": out1[-600:]}
        meta["confirmed"] = bool(meta["builds"] and meta["existing_tests_pass"] and rc0 == 0 and rc1 not in (0, None))
        for pid in checks:
            env = dict(ENV, VERIF_REPO=repo, VERIF_REPLAY_DIR=os.path.join(scratch, "replays"))
            rc, out = sh([os.path.join(V, "check"), pid, "--tier", args.tier], V, timeout=7200, env=env)
            lines = [l for l in out.splitlines() if l.startswith("VIOLATION") or l.startswith("  sub-check") or l.startswith(pid + " tier")]
            meta["ran"].append({"check": pid, "tier": args.tier, "exit": rc, "detected": rc == 1, "output": lines[:6]})
            print(pid, "exit", rc, "|", " / ".join(lines[:3])[:400])
    finally:
        shutil.rmtree(scratch, ignore_errors=True)
    return finish(meta, dest)


def finish(meta, dest):
    json.dump(meta, open(os.path.join(dest, "meta.json"), "w"), indent=1)
    print(json.dumps({k: v for k, v in meta.items() if k not in ("ran",)}, indent=1)[:1500])
    return 0


if __name__ == "__main__":
    sys.exit(main())
