//go:build verif

package c20

import (
	"bytes"
	"encoding/json"
	"fmt"
	"os"
	"os/exec"
	"path/filepath"
	"regexp"
	"sort"
	"strings"
	"sync"
	"testing"

	"pgregory.net/rapid"

	"verif/hx"
)

type constInfo struct {
	Name  string
	Value uint64
}

type typeInfo struct {
	Name   string
	Bits   int
	Signed bool
	Str    func(uint64) string
	Consts []constInfo
}

type strCase struct {
	Type  string `json:"type"`
	Value uint64 `json:"value"`
}

func typeByName(n string) *typeInfo {
	for i := range genTypes {
		if genTypes[i].Name == n {
			return &genTypes[i]
		}
	}
	return nil
}

// checkValue: a constant's value prints one of its names without the type
// prefix; any other value prints as Type(n).
func checkValue(ti *typeInfo, v uint64) string {
	mask := uint64(1)<<uint(ti.Bits) - 1
	if ti.Bits == 64 {
		mask = ^uint64(0)
	}
	v &= mask
	var got string
	var pnc any
	func() {
		defer func() { pnc = recover() }()
		got = ti.Str(v)
	}()
	if pnc != nil {
		return fmt.Sprintf("%s(%d).String() panicked: %v", ti.Name, v, pnc)
	}
	var names []string
	for _, c := range ti.Consts {
		if c.Value&mask == v {
			names = append(names, strings.TrimPrefix(c.Name, ti.Name))
		}
	}
	if len(names) > 0 {
		for _, n := range names {
			if got == n {
				return ""
			}
		}
		return fmt.Sprintf("%s(%d).String() = %q, want one of %q", ti.Name, v, got, names)
	}
	n := fmt.Sprint(v)
	if ti.Signed {
		shift := uint(64 - ti.Bits)
		n = fmt.Sprint(int64(v<<shift) >> shift)
	}
	if want := ti.Name + "(" + n + ")"; got != want {
		return fmt.Sprintf("%s(%d).String() = %q, want %q (no constant has this value)", ti.Name, v, got, want)
	}
	return ""
}

// probeValues returns the values of ti the concurrent phase prints: all of an
// 8- or 16-bit type, and for wider types the constants, their neighbours and
// the powers of two.
func probeValues(ti *typeInfo) []uint64 {
	var out []uint64
	switch {
	case ti.Bits <= 16:
		for v := uint64(0); v < uint64(1)<<uint(ti.Bits); v++ {
			out = append(out, v)
		}
	default:
		for _, c := range ti.Consts {
			out = append(out, c.Value-1, c.Value, c.Value+1)
		}
		for b := 0; b < ti.Bits; b++ {
			out = append(out, uint64(1)<<uint(b), uint64(1)<<uint(b)-1)
		}
	}
	return out
}

// TestMain: with VERIF_C20_WORKER set this binary is the child of the
// "concurrent" sub-check: several goroutines print the same values of every
// type at the same time, as the first String calls of the process. A wrong
// string ends the process with exit code 3; state kept by a String method shows
// as a runtime fatal error (concurrent map access) or as a wrong string.
func TestMain(m *testing.M) {
	if os.Getenv("VERIF_C20_WORKER") == "" {
		os.Exit(m.Run())
	}
	const goroutines = 8
	bad := make(chan string, goroutines)
	// type by type: all goroutines are released together on each type, so
	// that the first String call on that type in this process is made by
	// several goroutines at once
	for i := range genTypes {
		ti := &genTypes[i]
		if len(ti.Consts) == 0 {
			continue
		}
		vals := probeValues(ti)
		var wg sync.WaitGroup
		start := make(chan struct{})
		for g := 0; g < goroutines; g++ {
			wg.Add(1)
			go func(g int) {
				defer wg.Done()
				<-start
				for k := range vals {
					// named constants first (g even) or the probe order (g odd)
					v := vals[(k+g*len(vals)/goroutines)%len(vals)]
					if g%2 == 0 && k < len(ti.Consts) {
						v = ti.Consts[(k+g)%len(ti.Consts)].Value
					}
					if msg := checkValue(ti, v); msg != "" {
						select {
						case bad <- msg:
						default:
						}
						return
					}
				}
			}(g)
		}
		close(start)
		wg.Wait()
	}
	select {
	case msg := <-bad:
		fmt.Println("MISMATCH " + msg)
		os.Exit(3)
	default:
	}
	fmt.Println("CONCURRENT-OK")
	os.Exit(0)
}

// concurrent runs the child described at TestMain.
func concurrent(rec *hx.Recorder) {
	n := int64(0)
	for i := range genTypes {
		if len(genTypes[i].Consts) > 0 {
			n += int64(len(probeValues(&genTypes[i])))
		}
	}
	runs := hx.Pick(3, 40)
	for r := 0; r < runs; r++ {
		cmd := exec.Command(os.Args[0])
		cmd.Env = append(os.Environ(), "VERIF_C20_WORKER=1", "VERIF_OUT=")
		var out, errb bytes.Buffer
		cmd.Stdout, cmd.Stderr = &out, &errb
		err := cmd.Run()
		rec.Eval("concurrent", n*8)
		switch {
		case err == nil && strings.Contains(out.String(), "CONCURRENT-OK"):
		case strings.Contains(out.String(), "MISMATCH "):
			rec.Fail("concurrent", "", "8 goroutines printing the same values at the same time: "+firstLine(out.String()[strings.Index(out.String(), "MISMATCH ")+9:]), strCase{"(concurrent)", 0})
			return
		case strings.Contains(errb.String(), "fatal error:") || strings.Contains(errb.String(), "panic:"):
			rec.Fail("concurrent", "", "8 goroutines calling String at the same time crash the process (a String method keeps state): "+firstLine(errb.String()[strings.Index(errb.String(), "fatal error:")+0:]), strCase{"(concurrent)", 0})
			return
		default:
			rec.Note(fmt.Sprintf("concurrent: child ended with %v and no verdict: %s", err, firstLine(errb.String())))
			return
		}
	}
}

// otherArch runs the same value checks in the test binary built for a 32-bit
// architecture (the driver builds it and names it in VERIF_C20_ARCH386): what
// a value prints as does not depend on the size of int.
func otherArch(rec *hx.Recorder) {
	bin := os.Getenv("VERIF_C20_ARCH386")
	if bin == "" {
		rec.Note("arch-386: no GOARCH=386 build of this check available, sub-check not run")
		return
	}
	cmd := exec.Command(bin)
	cmd.Env = append(os.Environ(), "VERIF_C20_WORKER=1", "VERIF_OUT=")
	var out, errb bytes.Buffer
	cmd.Stdout, cmd.Stderr = &out, &errb
	err := cmd.Run()
	n := int64(0)
	for i := range genTypes {
		if len(genTypes[i].Consts) > 0 {
			n += int64(len(probeValues(&genTypes[i])))
		}
	}
	switch {
	case err == nil && strings.Contains(out.String(), "CONCURRENT-OK"):
		rec.Eval("arch-386", n)
	case strings.Contains(out.String(), "MISMATCH "):
		rec.Eval("arch-386", n)
		rec.Fail("arch-386", "", "compiled for GOARCH=386: "+firstLine(out.String()[strings.Index(out.String(), "MISMATCH ")+9:]), strCase{"(arch-386)", 0})
	case strings.Contains(errb.String(), "fatal error:") || strings.Contains(errb.String(), "panic:"):
		rec.Eval("arch-386", n)
		rec.Fail("arch-386", "", "compiled for GOARCH=386 the String methods crash: "+firstLine(errb.String()), strCase{"(arch-386)", 0})
	default:
		// the sandbox cannot run 32-bit binaries, or the child died for
		// another reason: not a verdict
		rec.Note(fmt.Sprintf("arch-386: child ended with %v and no verdict: %s", err, firstLine(errb.String())))
	}
}

func firstLine(s string) string {
	if i := strings.Index(s, "fatal error:"); i > 0 {
		s = s[i:]
	}
	if i := strings.IndexByte(s, '\n'); i >= 0 {
		s = s[:i]
	}
	return s
}

func TestC20(t *testing.T) {
	hx.Main(t, "C20", func(rec *hx.Recorder) {
		if rp, ok := hx.LoadReplay(); ok {
			var c strCase
			json.Unmarshal(rp.Case, &c)
			rec.Eval("replay", 1)
			if ti := typeByName(c.Type); ti != nil {
				if msg := checkValue(ti, c.Value); msg != "" {
					rec.Fail(rp.Sub, "", msg, c)
				}
			} else if c.Type == "(regeneration)" {
				regenerate(rec)
			} else if c.Type == "(concurrent)" {
				concurrent(rec)
			} else if c.Type == "(arch-386)" {
				otherArch(rec)
			} else if c.Type == "(init-time)" {
				initTime(rec)
			} else if c.Type == "(synthetic)" {
				synthetic(rec)
			}
			return
		}
		consts, others := int64(0), int64(0)
		for i := range genTypes {
			ti := &genTypes[i]
			if len(ti.Consts) == 0 {
				continue
			}
			isConst := map[uint64]bool{}
			for _, c := range ti.Consts {
				consts++
				isConst[c.Value] = true
				if msg := checkValue(ti, c.Value); msg != "" {
					rec.Fail("constants", "", c.Name+": "+msg, strCase{ti.Name, c.Value})
				}
			}
			var probe []uint64
			if ti.Bits == 8 {
				for v := uint64(0); v < 256; v++ {
					probe = append(probe, v)
				}
			} else {
				for _, c := range ti.Consts {
					probe = append(probe, c.Value-1, c.Value+1)
				}
				for b := 0; b < ti.Bits; b++ {
					probe = append(probe, uint64(1)<<uint(b), uint64(1)<<uint(b)-1)
				}
				probe = append(probe, 0, 1, 2, 3, ^uint64(0))
			}
			for _, v := range probe {
				mask := uint64(1)<<uint(ti.Bits) - 1
				if isConst[v&mask] {
					continue
				}
				others++
				if msg := checkValue(ti, v); msg != "" {
					rec.Fail("other-values", "", msg, strCase{ti.Name, v & mask})
				}
			}
		}
		rec.Eval("constants", consts)
		rec.Eval("other-values", others)
		rec.NonTrivialEnum(consts + others)
		rec.Class("types", int64(len(genTypes)))
		rec.Class("named constants", consts)
		rec.Exhaustive("every named constant of every integer type declared in types.go; every non-constant value of every 8-bit type")
		rec.Sample(strCase{"Sport", 2})
		rec.Sample(strCase{"Manufacturer", 1})
		rec.Sample(strCase{"ActivityClass", 3})

		wide := []*typeInfo{}
		for i := range genTypes {
			if genTypes[i].Bits > 8 && len(genTypes[i].Consts) > 0 {
				wide = append(wide, &genTypes[i])
			}
		}
		hx.RapidCheck(t, rec, "wide-values", func(rt *rapid.T, fail func(string, string, any)) {
			for k := 0; k < 200; k++ {
				ti := wide[rapid.IntRange(0, len(wide)-1).Draw(rt, "type")]
				var v uint64
				if rapid.Bool().Draw(rt, "near") {
					c := ti.Consts[rapid.IntRange(0, len(ti.Consts)-1).Draw(rt, "const")]
					v = c.Value + uint64(rapid.IntRange(-3, 3).Draw(rt, "delta"))
				} else {
					v = rapid.Uint64().Draw(rt, "v")
				}
				rec.Eval("wide-values", 1)
				rec.NonTrivial(hx.FP(fmt.Sprint(ti.Name, v&(uint64(1)<<uint(ti.Bits)-1))))
				if msg := checkValue(ti, v); msg != "" {
					fail("", msg, strCase{ti.Name, v})
				}
			}
		})

		regenerate(rec)
		concurrent(rec)
		otherArch(rec)
		initTime(rec)
		synthetic(rec)
	})
}

// synthetic runs the repository's stringer on type definitions made for the
// purpose - contiguous runs of constants whose names add up to just below, at
// and just above 256 and 65536 bytes (where the index tables change their
// element type), a run that starts above zero, a type with two runs - then
// compiles what it generated and calls String on every constant and on
// values next to them.
func synthetic(rec *hx.Recorder) {
	repo := hx.RepoDir()
	build := os.Getenv("VERIF_BUILD")
	if build == "" {
		build = os.TempDir()
	}
	dir, err := os.MkdirTemp(build, "c20-synth-")
	if err != nil {
		rec.Note("synthetic: " + err.Error())
		return
	}
	defer os.RemoveAll(dir)
	bin := filepath.Join(dir, "stringer")
	cmd := exec.Command("go", "build", "-tags", "verif", "-o", bin, "./cmd/fitgen/verifstringer")
	cmd.Dir = repo
	if out, err := cmd.CombinedOutput(); err != nil {
		rec.Note(fmt.Sprintf("synthetic: cannot build the stringer driver: %v %s", err, firstLine(string(out))))
		return
	}
	type synConst struct {
		name  string
		value int
	}
	type synType struct {
		name   string
		base   string
		consts []synConst
	}
	var types []synType
	// total = bytes of all names of the run; the last name is 15 bytes long
	mk := func(tname, base string, total, start int) synType {
		t := synType{name: tname, base: base}
		v := start
		used := 0
		for total-used > 15 {
			l := 10
			if total-used-l < 15 {
				l = total - used - 15
			}
			if l < 1 {
				break
			}
			n := fmt.Sprintf("N%d", v)
			for len(n) < l {
				n += "x"
			}
			n = n[:l]
			if l < len(fmt.Sprintf("N%d", v)) {
				n = strings.Repeat("y", l)
			}
			t.consts = append(t.consts, synConst{n, v})
			used += l
			v++
		}
		last := fmt.Sprintf("L%d", v)
		for len(last) < total-used {
			last += "z"
		}
		t.consts = append(t.consts, synConst{last, v})
		return t
	}
	for i, total := range []int{250, 255, 256, 257, 265, 270} {
		types = append(types, mk(fmt.Sprintf("SynSmall%c", 'A'+i), "byte", total, 0))
	}
	bigTotals := []int{65530, 65545}
	if hx.Thorough() {
		bigTotals = []int{65530, 65535, 65536, 65537, 65545}
	}
	for i, total := range bigTotals {
		types = append(types, mk(fmt.Sprintf("SynBig%c", 'A'+i), "uint16", total, 0))
	}
	types = append(types, mk("SynOffset", "uint16", 265, 1000))
	two := mk("SynTwoRuns", "uint16", 265, 0)
	second := mk("SynTwoRuns", "uint16", 258, 5000)
	for _, c := range second.consts {
		two.consts = append(two.consts, synConst{"S" + c.name, c.value})
	}
	types = append(types, two)

	var src strings.Builder
	src.WriteString("package fit\n\n")
	var names []string
	for _, t := range types {
		names = append(names, t.name)
		fmt.Fprintf(&src, "type %s %s\n\nconst (\n", t.name, t.base)
		seen := map[string]bool{}
		for _, c := range t.consts {
			if seen[c.name] {
				continue
			}
			seen[c.name] = true
			fmt.Fprintf(&src, "\t%s%s %s = %d\n", t.name, c.name, t.name, c.value)
		}
		src.WriteString(")\n\n")
	}
	sort.Strings(names)
	os.WriteFile(filepath.Join(dir, "go.mod"), []byte("module synth\n\ngo 1.21\n"), 0o644)
	os.WriteFile(filepath.Join(dir, "types.go"), []byte(src.String()), 0o644)
	run := exec.Command(bin, "types.go", strings.Join(names, ","))
	run.Dir = dir
	run.Env = append(os.Environ(), "GOFLAGS=-mod=mod", "GOWORK=off")
	var stderr bytes.Buffer
	run.Stderr = &stderr
	out, err := run.Output()
	rec.Eval("synthetic", 1)
	if err != nil {
		rec.Fail("synthetic", "", fmt.Sprintf("the repository's stringer fails on type definitions with name runs around 256 and 65536 bytes: %v %s", err, firstLine(stderr.String())), strCase{"(synthetic)", 0})
		return
	}
	os.WriteFile(filepath.Join(dir, "types_string.go"), out, 0o644)
	var probe strings.Builder
	probe.WriteString("package fit\n\nimport \"testing\"\n\nfunc TestSynth(t *testing.T) {\n\tfor _, p := range []struct{ want, got string }{\n")
	nprobe := int64(0)
	for _, t := range types {
		seen := map[string]bool{}
		vals := map[int]bool{}
		for _, c := range t.consts {
			vals[c.value] = true
		}
		for ci, c := range t.consts {
			if seen[c.name] {
				continue
			}
			seen[c.name] = true
			if len(t.consts) > 1000 && ci%40 != 0 && ci < len(t.consts)-5 {
				continue // long runs: every 40th constant and the last five
			}
			fmt.Fprintf(&probe, "\t\t{%q, %s%s.String()},\n", c.name, t.name, c.name)
			nprobe++
		}
		lastV := t.consts[len(t.consts)-1].value
		for _, v := range []int{lastV + 1, lastV + 2, 250, 255} {
			if !vals[v] && (t.base != "byte" || v < 256) {
				fmt.Fprintf(&probe, "\t\t{\"%s(%d)\", %s(%d).String()},\n", t.name, v, t.name, v)
				nprobe++
			}
		}
	}
	probe.WriteString("\t} {\n\t\tif p.want != p.got {\n\t\t\tt.Errorf(\"SYNTH-MISMATCH want %s got %s\", p.want, p.got)\n\t\t}\n\t}\n}\n")
	os.WriteFile(filepath.Join(dir, "zz_synth_test.go"), []byte(probe.String()), 0o644)
	test := exec.Command("go", "test", "-vet=off", "-count=1", "-run", "^TestSynth$", ".")
	test.Dir = dir
	test.Env = append(os.Environ(), "GOFLAGS=-mod=mod", "GOWORK=off")
	tout, terr := test.CombinedOutput()
	rec.Eval("synthetic", nprobe)
	rec.NonTrivialEnum(nprobe)
	switch {
	case terr == nil:
	case strings.Contains(string(tout), "SYNTH-MISMATCH"):
		line := string(tout)[strings.Index(string(tout), "SYNTH-MISMATCH"):]
		rec.Fail("synthetic", "", "String methods the repository's stringer generates for a type whose names add up to about 256 / 65536 bytes: "+firstLine(line), strCase{"(synthetic)", 0})
	default:
		rec.Fail("synthetic", "", "what the repository's stringer generates for types whose names add up to about 256 / 65536 bytes does not compile or run: "+firstLine(strings.TrimPrefix(string(tout), "# synth\n")), strCase{"(synthetic)", 0})
	}
}

// initTime compiles the repository's types.go and types_string.go as a
// package of their own together with a file whose package-level variables
// call String on every named constant, i.e. while the package is still being
// initialised (a package-level table, a registry or a log line of the
// library itself): the names are right from the first moment on.
func initTime(rec *hx.Recorder) {
	repo := hx.RepoDir()
	build := os.Getenv("VERIF_BUILD")
	if build == "" {
		build = os.TempDir()
	}
	dir, err := os.MkdirTemp(build, "c20-init-")
	if err != nil {
		rec.Note("init-time: " + err.Error())
		return
	}
	defer os.RemoveAll(dir)
	for _, n := range []string{"types.go", "types_string.go"} {
		data, err := os.ReadFile(filepath.Join(repo, n))
		if err != nil {
			rec.Note("init-time: " + err.Error())
			return
		}
		os.WriteFile(filepath.Join(dir, n), data, 0o644)
	}
	os.WriteFile(filepath.Join(dir, "go.mod"), []byte("module initprobe\n\ngo 1.21\n"), 0o644)
	var sb strings.Builder
	sb.WriteString("package fit\n\nimport \"testing\"\n\nvar initProbe = []struct {\n\tconst_, got string\n}{\n")
	n := int64(0)
	for i := range genTypes {
		ti := &genTypes[i]
		if ti.Name == "Bool" {
			continue
		}
		for _, c := range ti.Consts {
			fmt.Fprintf(&sb, "\t{%q, %s.String()},\n", c.Name, c.Name)
			n++
		}
	}
	sb.WriteString("}\n\nfunc TestInitProbe(t *testing.T) {\n\tfor _, p := range initProbe {\n\t\tt.Logf(\"PROBE %s %s\", p.const_, p.got)\n\t}\n}\n")
	os.WriteFile(filepath.Join(dir, "zz_initprobe_test.go"), []byte(sb.String()), 0o644)
	cmd := exec.Command("go", "test", "-vet=off", "-count=1", "-v", "-run", "^TestInitProbe$", ".")
	cmd.Dir = dir
	cmd.Env = append(os.Environ(), "GOFLAGS=-mod=mod", "GOWORK=off")
	out, err := cmd.CombinedOutput()
	if err != nil {
		rec.Note(fmt.Sprintf("init-time: the probe package could not be run (%v): %s", err, firstLine(string(out))))
		return
	}
	got := map[string]string{}
	for _, line := range strings.Split(string(out), "\n") {
		if i := strings.Index(line, "PROBE "); i >= 0 {
			f := strings.SplitN(line[i+6:], " ", 2)
			if len(f) == 2 {
				got[f[0]] = f[1]
			}
		}
	}
	rec.Eval("init-time", n)
	rec.NonTrivialEnum(n)
	for i := range genTypes {
		ti := &genTypes[i]
		if ti.Name == "Bool" {
			continue
		}
		for _, c := range ti.Consts {
			g, ok := got[c.Name]
			if !ok {
				rec.Note("init-time: no probe output for " + c.Name)
				return
			}
			mask := uint64(1)<<uint(ti.Bits) - 1
			if ti.Bits == 64 {
				mask = ^uint64(0)
			}
			match := false
			var names []string
			for _, o := range ti.Consts {
				if o.Value&mask == c.Value&mask {
					names = append(names, strings.TrimPrefix(o.Name, ti.Name))
					match = match || g == names[len(names)-1]
				}
			}
			if !match {
				rec.Fail("init-time", "", fmt.Sprintf("%s.String() evaluated in a package-level initialiser of the package that declares the type returned %q, want one of %q", c.Name, g, names), strCase{"(init-time)", 0})
				return
			}
		}
	}
}

// regenerate runs the repository's own stringer (through the verif-tagged
// driver under cmd/fitgen) on the checked-in types.go and compares with the
// checked-in types_string.go.
func regenerate(rec *hx.Recorder) {
	repo := hx.RepoDir()
	build := os.Getenv("VERIF_BUILD")
	if build == "" {
		build = os.TempDir()
	}
	bin := filepath.Join(build, fmt.Sprintf("verifstringer-%d", os.Getpid()))
	defer os.Remove(bin)
	cmd := exec.Command("go", "build", "-tags", "verif", "-o", bin, "./cmd/fitgen/verifstringer")
	cmd.Dir = repo
	if out, err := cmd.CombinedOutput(); err != nil {
		rec.Fail("regeneration", "HARNESS", fmt.Sprintf("cannot build the stringer driver: %v\n%s", err, out), strCase{"(regeneration)", 0})
		return
	}
	// the same generator built for a 32-bit int (what it writes must not
	// depend on the machine it runs on); skipped if that cannot be built
	bin32 := bin + "-386"
	defer os.Remove(bin32)
	cmd32 := exec.Command("go", "build", "-tags", "verif", "-o", bin32, "./cmd/fitgen/verifstringer")
	cmd32.Dir = repo
	cmd32.Env = append(os.Environ(), "GOARCH=386", "CGO_ENABLED=0")
	if out, err := cmd32.CombinedOutput(); err != nil {
		rec.Note(fmt.Sprintf("regeneration: no GOARCH=386 build of the stringer (%v: %s)", err, firstLine(string(out))))
		bin32 = ""
	}
	checked, err := os.ReadFile(filepath.Join(repo, "types_string.go"))
	if err != nil {
		rec.Fail("regeneration", "HARNESS", err.Error(), strCase{"(regeneration)", 0})
		return
	}
	// type list = every generated type that has constants, sorted (the
	// generator sorts its type keys)
	var list []string
	for _, ti := range genTypes {
		if len(ti.Consts) > 0 && ti.Name != "Bool" {
			list = append(list, ti.Name)
		}
	}
	sort.Strings(list)
	m := regexp.MustCompile(`(?m)^// fit types: \[(.*)\]$`).FindSubmatch(checked)
	if m == nil {
		rec.Fail("regeneration", "", "types_string.go has no '// fit types: [...]' header", strCase{"(regeneration)", 0})
		return
	}
	if hdr := strings.Fields(string(m[1])); strings.Join(hdr, " ") != strings.Join(list, " ") {
		rec.Fail("regeneration", "", fmt.Sprintf("types_string.go lists %d types, types.go declares %d types with constants; first difference: %s", len(hdr), len(list), firstDiff(hdr, list)), strCase{"(regeneration)", 0})
		return
	}
	run := exec.Command(bin, "types.go", strings.Join(list, ","))
	run.Dir = repo
	var stderr bytes.Buffer
	run.Stderr = &stderr
	out, err := run.Output()
	rec.Eval("regeneration", 1)
	if err != nil {
		rec.Fail("regeneration", "", fmt.Sprintf("the repository's stringer fails on the checked-in types.go: %v\n%s", err, stderr.String()), strCase{"(regeneration)", 0})
		return
	}
	if !bytes.Equal(out, checked) {
		rec.Fail("regeneration", "", "types_string.go is not what the repository's stringer generates from types.go: "+firstLineDiff(string(checked), string(out)), strCase{"(regeneration)", 0})
		return
	}
	// the stringer called twice in one process on the same path, the file
	// replaced in between (a decoy with one constant renamed first, then the
	// checked-in types.go): the second result is the checked-in tables
	func() {
		bin2 := bin + "-twice"
		defer os.Remove(bin2)
		cmd2 := exec.Command("go", "build", "-tags", "verif", "-o", bin2, "./cmd/fitgen/verifstringer2")
		cmd2.Dir = repo
		if out, err := cmd2.CombinedOutput(); err != nil {
			rec.Note(fmt.Sprintf("regeneration: no second stringer driver (%v: %s)", err, firstLine(string(out))))
			return
		}
		dir, err := os.MkdirTemp(build, "c20-twice-")
		if err != nil {
			rec.Note("regeneration: " + err.Error())
			return
		}
		defer os.RemoveAll(dir)
		real, err := os.ReadFile(filepath.Join(repo, "types.go"))
		if err != nil {
			return
		}
		// the decoy renames the first constant of the first listed type
		var decoy []byte
		for i := range genTypes {
			if genTypes[i].Name == list[0] && len(genTypes[i].Consts) > 0 {
				old := genTypes[i].Consts[0].Name
				decoy = bytes.ReplaceAll(real, []byte(old), []byte(old+"Decoy"))
			}
		}
		if decoy == nil || bytes.Equal(decoy, real) {
			rec.Note("regeneration: no decoy could be made")
			return
		}
		os.WriteFile(filepath.Join(dir, "go.mod"), []byte("module twice\n\ngo 1.21\n"), 0o644)
		os.WriteFile(filepath.Join(dir, "types.go"), decoy, 0o644)
		os.WriteFile(filepath.Join(dir, "real.txt"), real, 0o644)
		run2 := exec.Command(bin2, "types.go", strings.Join(list, ","), "real.txt")
		run2.Dir = dir
		run2.Env = append(os.Environ(), "GOFLAGS=-mod=mod", "GOWORK=off")
		var stderr2 bytes.Buffer
		run2.Stderr = &stderr2
		out2, err := run2.Output()
		if err != nil {
			rec.Note(fmt.Sprintf("regeneration: the second stringer driver failed (%v): %s", err, firstLine(stderr2.String())))
			return
		}
		rec.Eval("regeneration", 1)
		if !bytes.Equal(out2, checked) {
			rec.Fail("regeneration", "", "the repository's stringer, called a second time in one process after the file at the same path was replaced by the checked-in types.go, does not generate the checked-in tables: "+firstLineDiff(string(checked), string(out2)), strCase{"(regeneration)", 0})
		}
	}()
	if bin32 != "" {
		run32 := exec.Command(bin32, "types.go", strings.Join(list, ","))
		run32.Dir = repo
		var stderr32 bytes.Buffer
		run32.Stderr = &stderr32
		out32, err := run32.Output()
		switch {
		case err != nil && len(out32) == 0 && stderr32.Len() == 0:
			rec.Note(fmt.Sprintf("regeneration: the GOARCH=386 stringer could not be run here (%v)", err))
		case err != nil:
			rec.Eval("regeneration", 1)
			rec.Fail("regeneration", "", fmt.Sprintf("the repository's stringer built for GOARCH=386 fails on the checked-in types.go: %v\n%s", err, firstLine(stderr32.String())), strCase{"(regeneration)", 0})
		case !bytes.Equal(out32, checked):
			rec.Eval("regeneration", 1)
			rec.Fail("regeneration", "", "the repository's stringer built for GOARCH=386 generates other tables than the checked-in ones: "+firstLineDiff(string(checked), string(out32)), strCase{"(regeneration)", 0})
		default:
			rec.Eval("regeneration", 1)
		}
	}
}

func firstDiff(a, b []string) string {
	for i := 0; i < len(a) && i < len(b); i++ {
		if a[i] != b[i] {
			return fmt.Sprintf("position %d: %s vs %s", i, a[i], b[i])
		}
	}
	return fmt.Sprintf("lengths %d vs %d", len(a), len(b))
}

func firstLineDiff(a, b string) string {
	la, lb := strings.Split(a, "\n"), strings.Split(b, "\n")
	for i := 0; i < len(la) && i < len(lb); i++ {
		if la[i] != lb[i] {
			return fmt.Sprintf("line %d: checked-in %q, regenerated %q", i+1, la[i], lb[i])
		}
	}
	return fmt.Sprintf("checked-in has %d lines, regenerated %d", len(la), len(lb))
}
