//go:build verif

package c01

import (
	"bytes"
	"encoding/hex"
	"encoding/json"
	"fmt"
	"io"
	"os"
	"reflect"
	"runtime"
	"strconv"
	"strings"
	"sync"
	"sync/atomic"
	"testing"
	"time"

	"github.com/tormoder/fit"
	"pgregory.net/rapid"

	"verif/fitmodel"
	"verif/gen"
	"verif/hx"
	"verif/prof"
)

// byteCase is a raw input plus a chunking.
type byteCase struct {
	Data  string       `json:"data_hex"`
	Chunk gen.Chunking `json:"chunking"`
	Note  string       `json:"note,omitempty"`
}

var entryNames = []string{"Decode", "DecodeChained", "CheckIntegrity(false)", "CheckIntegrity(true)", "DecodeHeader", "DecodeHeaderAndFileID"}

// runEntry calls entry point e on data under chunking c and checks the
// documented result shapes. It returns a non-empty message on a panic or a
// shape violation. accepted reports a nil error.
func runEntry(e int, data []byte, c gen.Chunking) (msg string, accepted bool) {
	defer func() {
		if r := recover(); r != nil {
			msg = fmt.Sprintf("%s panicked: %v", entryNames[e], r)
		}
	}()
	r := gen.NewReader(data, c)
	switch e {
	case 0:
		f, err := fit.Decode(r, fit.WithUnknownFields(), fit.WithUnknownMessages())
		if err == nil && f == nil {
			return "Decode returned (nil, nil)", false
		}
		return "", err == nil
	case 1:
		fs, err := fit.DecodeChained(r)
		if err == nil {
			for _, f := range fs {
				if f == nil {
					return "DecodeChained returned a nil *File without error", false
				}
			}
		}
		return "", err == nil
	case 2:
		return "", fit.CheckIntegrity(r, false) == nil
	case 3:
		return "", fit.CheckIntegrity(r, true) == nil
	case 4:
		h, err := fit.DecodeHeader(r)
		if err != nil && h != (fit.Header{}) {
			return fmt.Sprintf("DecodeHeader returned error %v with non-zero header %v", err, h), false
		}
		return "", err == nil
	case 5:
		h, id, err := fit.DecodeHeaderAndFileID(r)
		if err != nil && (h != (fit.Header{}) || !reflect.DeepEqual(id, fit.FileIdMsg{})) {
			return fmt.Sprintf("DecodeHeaderAndFileID returned error %v with non-zero results", err), false
		}
		return "", err == nil
	}
	return "", false
}

// watchdog: every worker publishes the case it is working on; a case that has
// not returned after hangLimit is reported as a hang and the process exits
// (the stuck goroutine cannot be stopped).
const hangLimit = 20 * time.Second

type slotW struct {
	start atomic.Int64 // unix nano, 0 = idle
	mu    sync.Mutex
	data  []byte
	chunk gen.Chunking
	sub   string
}

var (
	wslots [64]slotW
	wdOnce sync.Once
	wdRec  *hx.Recorder
)

func startWatchdog(rec *hx.Recorder) {
	wdRec = rec
	wdOnce.Do(func() {
		go func() {
			for {
				time.Sleep(500 * time.Millisecond)
				now := time.Now().UnixNano()
				for i := range wslots {
					s := wslots[i].start.Load()
					if s != 0 && now-s > int64(hangLimit) {
						wslots[i].mu.Lock()
						c, sub := byteCase{Data: hex.EncodeToString(wslots[i].data), Chunk: wslots[i].chunk}, wslots[i].sub
						wslots[i].mu.Unlock()
						wdRec.Fail(sub, "", fmt.Sprintf("an entry point has not returned after %v on a %d-byte input (hang)", hangLimit, len(c.Data)/2), c)
						wdRec.Flush(true)
						os.Exit(3)
					}
				}
			}
		}()
	})
}

// guarded runs all entry points on the case under the watchdog.
func guarded(w int, sub string, data []byte, c gen.Chunking, entries []int) (string, bool) {
	sl := &wslots[w%len(wslots)]
	sl.mu.Lock()
	sl.data = append(sl.data[:0], data...)
	sl.chunk = c
	sl.sub = sub
	sl.mu.Unlock()
	sl.start.Store(time.Now().UnixNano())
	defer sl.start.Store(0)
	accepted := false
	for _, e := range entries {
		msg, acc := runEntry(e, data, c)
		if msg != "" {
			return msg, false
		}
		if e == 0 && acc {
			accepted = true
		}
	}
	return "", accepted
}

var allEntries = []int{0, 1, 2, 3, 4, 5}

// crcTable is a byte-wise table derived from the bit-serial reference, used
// only to build grid files quickly.
var crcTable = func() [256]uint16 {
	var t [256]uint16
	for i := range t {
		t[i] = fitmodel.CRCStep(0, byte(i))
	}
	return t
}()

func fastCRC(c uint16, b []byte) uint16 {
	for _, x := range b {
		c = (c >> 8) ^ crcTable[byte(c)^x]
	}
	return c
}

// gridFile builds header + file_id + one single-field definition + one data
// record + CRC into buf.
func gridFile(buf []byte, ft byte, global uint16, num, size, base byte, be bool, fill byte) []byte {
	buf = buf[:0]
	body := 6 + 3 + 2 + 6 + 3 + 1 + int(size)
	buf = append(buf, 14, 0x20, 0x34, 0x08, byte(body), byte(body>>8), 0, 0, '.', 'F', 'I', 'T')
	hc := fastCRC(0, buf)
	buf = append(buf, byte(hc), byte(hc>>8))
	buf = append(buf, 0x40, 0, 0, 0, 0, 1, 0, 1, 0, 0x00, ft)
	buf = append(buf, 0x41, 0)
	if be {
		buf = append(buf, 1, byte(global>>8), byte(global))
	} else {
		buf = append(buf, 0, byte(global), byte(global>>8))
	}
	buf = append(buf, 1, num, size, base, 0x01)
	for i := 0; i < int(size); i++ {
		switch fill {
		case 0xA5:
			buf = append(buf, 0xA5^byte(i*7))
		default:
			buf = append(buf, fill)
		}
	}
	c := fastCRC(0, buf)
	return append(buf, byte(c), byte(c>>8))
}

type gridCase struct {
	FileType byte   `json:"file_type"`
	Global   uint16 `json:"global"`
	Num      byte   `json:"num"`
	Size     byte   `json:"size"`
	Base     byte   `json:"base"`
	BE       bool   `json:"big_endian"`
	Fill     byte   `json:"fill"`
}

type target struct {
	global  uint16
	num     byte
	full    bool // full 256x256 grid; else reduced size list (and, in the quick tier, a reduced base byte list)
	profile bool // (global, num) is a profile field
}

var reducedBases = []byte{0x00, 0x01, 0x02, 0x03, 0x04, 0x05, 0x06, 0x07, 0x08, 0x09, 0x0A, 0x0B, 0x0C, 0x0D, 0x0E, 0x0F, 0x10, 0x11, 0x1F,
	0x80, 0x81, 0x82, 0x83, 0x84, 0x85, 0x86, 0x87, 0x88, 0x89, 0x8A, 0x8B, 0x8C, 0x8D, 0x8E, 0x8F, 0x90, 0x91, 0x9F, 0xFF, 0x20, 0x47, 0xA7}

var reducedSizes = []int{0, 1, 2, 3, 4, 5, 7, 8, 9, 16, 255}

func grid(t *testing.T, rec *hx.Recorder) {
	tab := prof.Table()
	thorough := hx.Thorough()
	// a file type hosting each message, so decoded values are stored and routed
	host := map[uint16]fit.FileType{}
	for _, ft := range prof.FileTypes {
		for _, m := range prof.HostedMsgs(ft) {
			if _, ok := host[m]; !ok {
				host[m] = ft
			}
		}
	}
	var targets []target
	// profile fields
	classSeen := map[string]bool{}
	for _, m := range prof.MsgNums() {
		mi := tab.Msgs[m]
		for _, n := range prof.FieldNums(m) {
			fi := mi.Fields[n]
			full := thorough
			if !thorough {
				// quick: one representative per (base, array, length, kind, hosted) class
				_, hosted := host[m]
				key := fmt.Sprint(fi.Base, fi.Array, fi.Kind, hosted)
				if !classSeen[key] {
					classSeen[key] = true
					full = true
				}
			}
			targets = append(targets, target{m, n, full, true})
		}
		// non-profile field numbers of a known message
		repr := false
		for n := 0; n < 256; n++ {
			if mi.Fields[byte(n)] != nil {
				continue
			}
			if !repr {
				targets = append(targets, target{m, byte(n), thorough || m == 20, false})
				repr = true
			} else if thorough || n%37 == 0 || n >= 253 {
				targets = append(targets, target{m, byte(n), false, false})
			}
		}
	}
	// unknown messages: a gap inside the table, one beyond it, manufacturer range, invalid
	for _, g := range []uint16{gen.UnknownMsgPool()[0], 1000, 0xFF00, 0xFFFE, 0xFFFF} {
		targets = append(targets, target{g, 0, true, false}, target{g, 253, false, false}, target{g, 255, false, false})
	}

	var cells, accepted atomic.Int64
	var failMu sync.Mutex
	nfail := 0
	workers := runtime.NumCPU()
	work := make(chan target, 64)
	var wg sync.WaitGroup
	stride := 0
	for w := 0; w < workers; w++ {
		wg.Add(1)
		go func(w int) {
			defer wg.Done()
			buf := make([]byte, 0, 512)
			for tg := range work {
				ft := byte(fit.FileTypeActivity)
				if h, ok := host[tg.global]; ok {
					ft = byte(h)
				}
				var localCells, localAcc int64
				nbase := 256
				if !tg.full && !thorough {
					nbase = len(reducedBases)
				}
				for bi := 0; bi < nbase; bi++ {
					base := bi
					if nbase != 256 {
						base = int(reducedBases[bi])
					}
					sizes := reducedSizes
					if tg.full {
						sizes = nil
					}
					nsz := 256
					if sizes != nil {
						nsz = len(sizes)
					}
					for si := 0; si < nsz; si++ {
						size := si
						if sizes != nil {
							size = sizes[si]
						}
						for o := 0; o < 2; o++ {
							fills := []byte{0xA5}
							if (base+size)%16 == 0 {
								fills = []byte{0xA5, 0xFF, 0x00}
							}
							for _, fill := range fills {
								buf = gridFile(buf, ft, tg.global, tg.num, byte(size), byte(base), o == 1, fill)
								entries := []int{0}
								chunk := gen.NoFault("whole", 0)
								localCells++
								if (localCells+int64(w))%64 == 0 {
									entries = allEntries
									switch (localCells / 64) % 3 {
									case 1:
										chunk = gen.NoFault("one", 0)
									case 2:
										chunk = gen.NoFault("fixed", 3)
									}
								}
								msg, acc := guarded(w, "grid", buf, chunk, entries)
								if acc {
									localAcc++
								}
								if msg != "" {
									failMu.Lock()
									nfail++
									if nfail <= 5 {
										rec.Fail("grid", "", fmt.Sprintf("%s\nmessage %d field %d base %#02x size %d bigEndian=%v fill %#02x", msg, tg.global, tg.num, base, size, o == 1, fill),
											gridCase{ft, tg.global, tg.num, byte(size), byte(base), o == 1, fill})
									}
									failMu.Unlock()
								}
							}
						}
					}
				}
				cells.Add(localCells)
				if tg.profile {
					accepted.Add(localAcc)
				}
			}
		}(w)
	}
	nfull := 0
	for _, tg := range targets {
		if tg.full {
			nfull++
		}
		work <- tg
		stride++
	}
	close(work)
	wg.Wait()
	rec.Eval("grid", cells.Load())
	rec.NonTrivialEnum(accepted.Load())
	rec.Class("grid-targets", int64(len(targets)))
	rec.Class("grid-targets-full-256x256x2", int64(nfull))
	rec.Class("grid-accepted-definitions", accepted.Load())
	if thorough {
		rec.Exhaustive("single-field definitions: every profile (message, field) x base byte 0-255 x size 0-255 x both byte orders; every non-profile field number of every known message and 5 unknown message numbers with a reduced size list")
	} else {
		rec.Exhaustive("single-field definitions: one representative profile field per (base type, array, kind, hosted) class with the full base byte x size x order grid; all other profile fields with 42 base bytes (all real codes, their flag-flipped twins, reserved ones) x sizes {0,1,2,3,4,5,7,8,9,16,255}")
	}
	rec.Sample(map[string]any{"kind": "grid cell", "hex": hex.EncodeToString(gridFile(nil, 4, 20, 5, 4, 0x86, true, 0xA5))})
	if nfail > 5 {
		rec.Note(fmt.Sprintf("grid: %d failing cells in total (first 5 recorded)", nfail))
	}
}

func replayGrid(rec *hx.Recorder, raw json.RawMessage) {
	var g gridCase
	json.Unmarshal(raw, &g)
	buf := gridFile(nil, g.FileType, g.Global, g.Num, g.Size, g.Base, g.BE, g.Fill)
	for _, ch := range gen.StandardChunkings() {
		if msg, _ := guarded(0, "grid", buf, ch, allEntries); msg != "" {
			rec.Fail("grid", "", msg, g)
			return
		}
	}
}

// chainVariant returns a copy of s for use as a later member of a chain:
// with the definitions after the file_id definition removed (its data records
// then use local types only an earlier member defined), and/or without the
// file_id data record.
func chainVariant(d gen.D, s *fitmodel.Stream) *fitmodel.Stream {
	out := *s
	out.Recs = nil
	strip := d.Chance(60, "strip-defs")
	dropID := d.Chance(50, "drop-fileid-data")
	for i, r := range s.Recs {
		if strip && r.IsDef && i > 0 {
			continue
		}
		if dropID && !r.IsDef && i == 1 {
			continue
		}
		out.Recs = append(out.Recs, r)
	}
	return &out
}

// chainCarry enumerates two-member chains in which the second member uses a
// local type that only the first member defined: every known message number
// and a few unknown ones x local types {0,1,5,15} x second-member shapes
// (data record first / after the file_id definition / after a whole file_id).
func chainCarry(rec *hx.Recorder) {
	fileIDDef := fitmodel.Rec{IsDef: true, Local: 0, Global: 0, Fields: []fitmodel.FieldDef{{Num: 0, Size: 1, Base: 0x00}}}
	globals := append([]uint16{}, prof.MsgNums()...)
	globals = append(globals, gen.UnknownMsgPool()[0], 1000, 0xFF00, 0xFFFF)
	n := int64(0)
	for _, g := range globals {
		for _, l := range []byte{0, 1, 5, 15} {
			def := fitmodel.Rec{IsDef: true, Local: l, Global: g, Fields: []fitmodel.FieldDef{{Num: 0, Size: 1, Base: 0x02}, {Num: 253, Size: 4, Base: 0x86}}}
			data := fitmodel.Rec{Local: l, Raw: []byte{7, 1, 2, 3, 4}}
			first := &fitmodel.Stream{HeaderSize: 14, Proto: 0x20, Recs: []fitmodel.Rec{fileIDDef, {Local: 0, Raw: []byte{4}}, def, data}}
			for shape := 0; shape < 3; shape++ {
				second := &fitmodel.Stream{HeaderSize: 12, Proto: 0x10}
				switch shape {
				case 0:
					second.Recs = []fitmodel.Rec{data}
				case 1:
					second.Recs = []fitmodel.Rec{fileIDDef, data}
				case 2:
					second.Recs = []fitmodel.Rec{fileIDDef, {Local: 0, Raw: []byte{4}}, data, data}
				}
				if l == 0 && shape > 0 {
					continue // the second member redefines local type 0 itself
				}
				img := append(first.Bytes(), second.Bytes()...)
				n++
				if msg, _ := guarded(0, "chain-carry", img, gen.NoFault("whole", 0), allEntries); msg != "" {
					rec.Fail("chain-carry", "", fmt.Sprintf("%s\nsecond member of a chain uses local type %d, defined (message %d) only in the first member; shape %d", msg, l, g, shape),
						byteCase{Data: hex.EncodeToString(img), Chunk: gen.NoFault("whole", 0)})
					return
				}
			}
		}
	}
	rec.Eval("chain-carry", n)
}

// saturatedScratch: what a record is decoded into must not depend on what
// earlier records left in any buffer the decoder reuses. A definition with
// 255 fields and 255 developer fields none of whose bytes is zero comes
// first (it fills a scratch buffer of any plausible size with non-zero
// bytes); then, for every string field of every known message and for field
// sizes 1, the profile length and 255, a record whose string fills its field
// completely with non-zero bytes (no terminator anywhere in sight).
func saturatedScratch(rec *hx.Recorder) {
	fileIDDef := fitmodel.Rec{IsDef: true, Local: 0, Global: 0, Fields: []fitmodel.FieldDef{{Num: 0, Size: 1, Base: 0x00}}}
	wide := fitmodel.Rec{IsDef: true, Local: 5, Global: 0xFF77, HasDev: true}
	for i := 0; i < 255; i++ {
		wide.Fields = append(wide.Fields, fitmodel.FieldDef{Num: byte(i + 1), Size: 1, Base: 0x02})
		wide.Dev = append(wide.Dev, fitmodel.DevFieldDef{Num: byte(i + 1), Size: 1, Idx: byte(1 + i%7)})
	}
	wideData := fitmodel.Rec{Local: 5, Raw: bytes.Repeat([]byte{0x5A}, 510)}
	tab := prof.Table()
	n := int64(0)
	for _, g := range prof.MsgNums() {
		for _, num := range prof.FieldNums(g) {
			fi := tab.Msgs[g].Fields[num]
			if !fitmodel.MustBase(fi.Base).String || fi.Array {
				continue
			}
			for _, size := range []int{1, fi.Length, 255} {
				if size < 1 || size > 255 {
					continue
				}
				for _, withData := range []bool{false, true} {
					def := fitmodel.Rec{IsDef: true, Local: 1, Global: g, Fields: []fitmodel.FieldDef{{Num: num, Size: byte(size), Base: 0x07}}}
					data := fitmodel.Rec{Local: 1, Raw: bytes.Repeat([]byte{'A'}, size)}
					st := &fitmodel.Stream{HeaderSize: 12, Proto: 0x20, Recs: []fitmodel.Rec{fileIDDef, {Local: 0, Raw: []byte{4}}, wide}}
					if withData {
						st.Recs = append(st.Recs, wideData)
					}
					st.Recs = append(st.Recs, def, data, data)
					img := st.Bytes()
					n++
					if msg, _ := guarded(0, "saturated-scratch", img, gen.NoFault("whole", 0), allEntries); msg != "" {
						rec.Fail("saturated-scratch", "", fmt.Sprintf("%s\nmessage %d field %d (string) defined with size %d and filled completely, after a 255+255-field definition without a zero byte", msg, g, num, size),
							byteCase{Data: hex.EncodeToString(img), Chunk: gen.NoFault("whole", 0)})
						return
					}
				}
			}
		}
	}
	rec.Eval("saturated-scratch", n)
	rec.NonTrivialEnum(n)
}

// readerErrors: a reader that fails - at every offset of the header and at a
// few later ones, persistently and once - with each of the error values real
// readers fail with, an error of an uncomparable dynamic type among them:
// every entry point returns normally.
func readerErrors(rec *hx.Recorder) {
	valid := (&fitmodel.Stream{HeaderSize: 14, Proto: 0x20, Recs: []fitmodel.Rec{
		{IsDef: true, Global: 0, Fields: []fitmodel.FieldDef{{Num: 0, Size: 1, Base: 0}}}, {Raw: []byte{4}},
		{IsDef: true, Local: 1, Global: 20, Fields: []fitmodel.FieldDef{{Num: 253, Size: 4, Base: 0x86}, {Num: 3, Size: 1, Base: 2}}},
		{Local: 1, Raw: []byte{0, 0xCA, 0x9A, 0x3B, 99}},
	}}).Bytes()
	chain := append(append([]byte{}, valid...), valid...)
	n := int64(0)
	offsets := []int{}
	for k := 0; k <= 16; k++ {
		offsets = append(offsets, k)
	}
	offsets = append(offsets, 20, 25, len(valid)-2, len(valid)-1, len(valid), len(valid)+1, len(valid)+14, len(chain)-1)
	for _, kind := range append([]string{""}, gen.FaultErrKinds...) {
		for _, k := range offsets {
			for mode := 0; mode < 3; mode++ {
				ch := gen.NoFault("whole", 0)
				ch.FaultAt, ch.FaultErr = k, kind
				ch.Transient = mode == 1
				ch.FaultWithData = mode == 2
				n++
				if msg, _ := guarded(0, "reader-errors", chain, ch, allEntries); msg != "" {
					rec.Fail("reader-errors", "", fmt.Sprintf("%s\nreader failing at offset %d with error kind %q (transient=%v, with data=%v)", msg, k, kind, ch.Transient, ch.FaultWithData),
						byteCase{Data: hex.EncodeToString(chain), Chunk: ch})
					return
				}
			}
		}
	}
	rec.Eval("reader-errors", n)
	rec.NonTrivialEnum(n)
}

// optionLists: every list of one to three options drawn from {a logger, a nil
// logger, the standard-error logger, unknown fields, unknown messages} - the
// same option may occur twice, in any order - on a valid, a cut and a refused
// input: Decode and DecodeChained return normally. Standard error goes to
// /dev/null meanwhile.
func optionLists(rec *hx.Recorder) {
	valid := (&fitmodel.Stream{HeaderSize: 14, Proto: 0x20, Recs: []fitmodel.Rec{
		{IsDef: true, Global: 0, Fields: []fitmodel.FieldDef{{Num: 0, Size: 1, Base: 0}}}, {Raw: []byte{4}},
		{IsDef: true, Local: 1, Global: 20, Fields: []fitmodel.FieldDef{{Num: 253, Size: 4, Base: 0x86}, {Num: 3, Size: 1, Base: 2}, {Num: 200, Size: 1, Base: 2}}},
		{Local: 1, Raw: []byte{0, 0xCA, 0x9A, 0x3B, 99, 7}},
		{IsDef: true, Local: 2, Global: 0xFF10, Fields: []fitmodel.FieldDef{{Num: 1, Size: 1, Base: 2}}}, {Local: 2, Raw: []byte{1}},
	}}).Bytes()
	inputs := [][]byte{valid, valid[:31], append([]byte{14, 0x50}, valid[2:]...)}
	atoms := []struct {
		name string
		mk   func() fit.DecodeOption
	}{
		{"WithLogger(l)", func() fit.DecodeOption { return fit.WithLogger(&ptrLogger{}) }},
		{"WithLogger(nil)", func() fit.DecodeOption { return fit.WithLogger(nil) }},
		{"WithStdLogger()", func() fit.DecodeOption { return fit.WithStdLogger() }},
		{"WithUnknownFields()", func() fit.DecodeOption { return fit.WithUnknownFields() }},
		{"WithUnknownMessages()", func() fit.DecodeOption { return fit.WithUnknownMessages() }},
	}
	saved := os.Stderr
	if null, err := os.OpenFile(os.DevNull, os.O_WRONLY, 0); err == nil {
		os.Stderr = null
		defer func() { os.Stderr = saved; null.Close() }()
	}
	n := int64(0)
	var list []int
	var walk func(depth int) bool
	walk = func(depth int) bool {
		if len(list) > 0 {
			var names []string
			for _, a := range list {
				names = append(names, atoms[a].name)
			}
			for _, in := range inputs {
				for e := 0; e < 2; e++ {
					var opts []fit.DecodeOption
					for _, a := range list {
						opts = append(opts, atoms[a].mk())
					}
					var p any
					func() {
						defer func() { p = recover() }()
						if e == 0 {
							fit.Decode(bytes.NewReader(in), opts...)
						} else {
							fit.DecodeChained(bytes.NewReader(in), opts...)
						}
					}()
					n++
					if p != nil {
						os.Stderr = saved
						rec.Fail("option-lists", "", fmt.Sprintf("%s with the options [%s] panicked: %v", entryNames[e], strings.Join(names, ", "), p),
							byteCase{Data: hex.EncodeToString(in), Chunk: gen.NoFault("whole", 0), Note: "option-lists"})
						return false
					}
				}
			}
		}
		if depth == 3 {
			return true
		}
		for a := range atoms {
			list = append(list, a)
			ok := walk(depth + 1)
			list = list[:len(list)-1]
			if !ok {
				return false
			}
		}
		return true
	}
	walk(0)
	rec.Eval("option-lists", n)
	rec.NonTrivialEnum(n)
}

// stdLogger: the option that logs to standard error, in a process whose
// standard error is closed, unwritable, or nil (a daemon, `2>&-`): logging is
// a side channel, the entry points still return instead of panicking.
func stdLogger(rec *hx.Recorder) {
	valid := (&fitmodel.Stream{HeaderSize: 14, Proto: 0x20, Recs: []fitmodel.Rec{
		{IsDef: true, Global: 0, Fields: []fitmodel.FieldDef{{Num: 0, Size: 1, Base: 0}}}, {Raw: []byte{4}},
		{IsDef: true, Local: 1, Global: 20, Fields: []fitmodel.FieldDef{{Num: 253, Size: 4, Base: 0x86}, {Num: 3, Size: 1, Base: 2}}},
		{Local: 1, Raw: []byte{0, 0xCA, 0x9A, 0x3B, 99}},
	}}).Bytes()
	inputs := [][]byte{valid, valid[:20], append([]byte{14}, valid[1:]...), {}}
	saved := os.Stderr
	defer func() { os.Stderr = saved }()
	closed, err := os.CreateTemp(os.Getenv("VERIF_BUILD"), "closed-stderr-*")
	if err != nil {
		rec.Note("std-logger: " + err.Error())
		return
	}
	closed.Close()
	os.Remove(closed.Name())
	ro, _ := os.Open(os.DevNull) // opened read-only: writes fail
	n := int64(0)
	for si, st := range []*os.File{closed, ro, nil} {
		for _, in := range inputs {
			for e := 0; e < 2; e++ {
				os.Stderr = st
				var p any
				func() {
					defer func() { p = recover() }()
					if e == 0 {
						fit.Decode(bytes.NewReader(in), fit.WithStdLogger())
					} else {
						fit.DecodeChained(bytes.NewReader(in), fit.WithStdLogger())
					}
				}()
				os.Stderr = saved
				n++
				if p != nil {
					rec.Fail("std-logger", "", fmt.Sprintf("%s with WithStdLogger panicked while standard error was %s: %v", entryNames[e], []string{"a closed file", "not writable", "nil"}[si], p),
						byteCase{Data: hex.EncodeToString(in), Chunk: gen.NoFault("whole", 0), Note: "std-logger"})
					return
				}
			}
		}
	}
	if ro != nil {
		ro.Close()
	}
	// WithLogger takes any value that implements fit.Logger: a pointer, a
	// struct value with value-receiver methods, a named string or func type,
	// a typed nil pointer. None of them makes the entry points panic.
	var nilPtr *ptrLogger
	loggers := []struct {
		name string
		l    fit.Logger
	}{
		{"struct value", structLogger{}}, {"named string", stringLogger("x")}, {"named func", funcLogger(func() {})},
		{"pointer", &ptrLogger{}}, {"typed nil pointer", nilPtr}, {"nil interface", nil},
	}
	for _, lg := range loggers {
		for _, in := range inputs {
			for e := 0; e < 2; e++ {
				var p any
				func() {
					defer func() { p = recover() }()
					if e == 0 {
						fit.Decode(bytes.NewReader(in), fit.WithLogger(lg.l))
					} else {
						fit.DecodeChained(bytes.NewReader(in), fit.WithLogger(lg.l))
					}
				}()
				n++
				if p != nil && lg.name != "typed nil pointer" {
					rec.Fail("std-logger", "", fmt.Sprintf("%s with WithLogger(<%s>) panicked: %v", entryNames[e], lg.name, p),
						byteCase{Data: hex.EncodeToString(in), Chunk: gen.NoFault("whole", 0), Note: "std-logger"})
					return
				}
			}
		}
	}
	rec.Eval("std-logger", n)
}

type structLogger struct{}

func (structLogger) Print(...interface{})          {}
func (structLogger) Printf(string, ...interface{}) {}
func (structLogger) Println(...interface{})        {}

type stringLogger string

func (stringLogger) Print(...interface{})          {}
func (stringLogger) Printf(string, ...interface{}) {}
func (stringLogger) Println(...interface{})        {}

type funcLogger func()

func (funcLogger) Print(...interface{})          {}
func (funcLogger) Printf(string, ...interface{}) {}
func (funcLogger) Println(...interface{})        {}

type ptrLogger struct{ n int }

func (p *ptrLogger) Print(...interface{})          { p.n++ }
func (p *ptrLogger) Printf(string, ...interface{}) { p.n++ }
func (p *ptrLogger) Println(...interface{})        { p.n++ }

// fourGiB streams a 4 GiB activity file whose header declares declared data
// bytes while declared+1 are present (the last record, two bytes long, ends
// one byte after the declared end; the checksum and 64 more bytes follow).
// Decode has to return normally.
func fourGiB(declared uint32) string {
	extra := bytes.Repeat([]byte{0x40, 0x00}, 32)
	g := gen.NewBigFile(uint64(declared)+1, declared, extra)
	r := gen.DecodeBig(g, func(rd io.Reader) ([]byte, error) {
		_, err := fit.Decode(rd)
		return nil, err
	})
	if r.Panic != nil {
		return fmt.Sprintf("Decode panicked on a %d-byte stream whose header declares %d data bytes and whose last record ends one byte after that (checksum and 64 more bytes follow): %v", r.Total, declared, r.Panic)
	}
	return ""
}

func TestC01(t *testing.T) {
	hx.Main(t, "C01", func(rec *hx.Recorder) {
		startWatchdog(rec)
		if rp, ok := hx.LoadReplay(); ok {
			rec.Eval("replay", 1)
			if rp.Sub == "grid" {
				replayGrid(rec, rp.Case)
				return
			}
			if rp.Sub == "four-gib" {
				for _, d := range []uint32{0xFFFFFFFE, 0xFFFFF001} {
					if msg := fourGiB(d); msg != "" {
						rec.Fail(rp.Sub, "", msg, byteCase{Note: msg})
					}
				}
				return
			}
			if rp.Sub == "option-lists" {
				optionLists(rec)
				return
			}
			if rp.Sub == "std-logger" {
				stdLogger(rec)
				return
			}
			var c byteCase
			json.Unmarshal(rp.Case, &c)
			data, _ := hex.DecodeString(c.Data)
			if msg, _ := guarded(0, rp.Sub, data, c.Chunk, allEntries); msg != "" {
				rec.Fail(rp.Sub, "", msg, c)
			}
			return
		}

		// streams that really are 4 GiB long whose header declares a data
		// size just short of what follows (the last record straddles the
		// declared end, more bytes follow): decoded while the rest of this
		// process's work goes on (first shard, 64-bit builds; streamed)
		var big []chan string
		if hx.FirstShard() && strconv.IntSize == 64 && os.Getenv("VERIF_VARIANT") == "" {
			decl := []uint32{0xFFFFFFFE}
			if hx.Thorough() {
				decl = append(decl, 0xFFFFF001, 0xFFFFFFFF, 0xFFFFF800)
			}
			for _, d := range decl {
				ch := make(chan string, 1)
				big = append(big, ch)
				go func(d uint32) { ch <- fourGiB(d) }(d)
			}
		}
		defer func() {
			for _, ch := range big {
				rec.Eval("four-gib", 1)
				rec.NonTrivialEnum(1)
				if msg := <-ch; msg != "" {
					rec.Fail("four-gib", "", msg, byteCase{Data: "", Note: msg})
				}
			}
		}()

		if hx.FirstShard() {
			grid(t, rec) // enumerations run once, the rapid search in every shard
			chainCarry(rec)
			saturatedScratch(rec)
			stdLogger(rec)
			optionLists(rec)
			readerErrors(rec)
		}

		corpus := gen.SmallCorpus(20000)
		hx.RapidCheck(t, rec, "mutants", func(rt *rapid.T, fail func(string, string, any)) {
			d := gen.D{T: rt}
			var data []byte
			src := d.Int(0, 10, "src")
			switch {
			case src == 10:
				// a chain of 2-3 images; later members are often structural
				// variants of the first (definitions stripped, the file_id
				// data record dropped), so that anything a decoder carries
				// from one file of a chain into the next is exercised
				o := gen.DefaultStreamOpts()
				o.MaxRecs = 10
				first, _ := gen.GenStream(d, o)
				data = append(data, first.Bytes()...)
				for k, n := 0, d.Int(1, 2, "chain-more"); k < n; k++ {
					next := first
					if d.Chance(30, "chain-fresh") {
						next, _ = gen.GenStream(d, o)
					}
					next = chainVariant(d, next)
					if d.Chance(30, "chain-specmut") {
						next = gen.MutateSpec(d, next)
					}
					data = append(data, next.Bytes()...)
				}
				if d.Chance(30, "chain-bytemut") {
					data = gen.MutateBytes(d, data)
				}
				rec.Class("chain-with-variant-members", 1)
			case src < 6:
				o := gen.DefaultStreamOpts()
				o.OddStrings = true
				if d.Int(0, 7, "localtimes") == 0 {
					gen.LocalTimeOpts(d, &o)
					rec.Class("local-time stream", 1)
				}
				s, _ := gen.GenStream(d, o)
				if d.Chance(80, "specmut") {
					s = gen.MutateSpec(d, s)
				}
				data = gen.MutateBytes(d, s.Bytes())
				rec.Class("mutant-of-generated-stream", 1)
			case src < 9 && len(corpus) > 0:
				cf := corpus[d.Int(0, len(corpus)-1, "cf")]
				if p, err := fitmodel.Parse(cf.Data); err == nil && d.Chance(60, "specmut2") {
					data = gen.MutateBytes(d, gen.MutateSpec(d, p.Stream).Bytes())
					rec.Class("spec-mutant-of-corpus-file", 1)
				} else {
					data = gen.MutateBytes(d, cf.Data)
					rec.Class("byte-mutant-of-corpus-file", 1)
				}
			default:
				data = rapid.SliceOfN(rapid.Byte(), 0, 64).Draw(rt, "rawbytes")
				if d.Bool("hdrprefix") {
					data = append([]byte{14, 0x20, 0, 0, byte(len(data)), 0, 0, 0, '.', 'F', 'I', 'T', 0, 0}, data...)
				}
				rec.Class("raw-bytes", 1)
			}
			ch := gen.DrawChunking(d)
			c := byteCase{Data: hex.EncodeToString(data), Chunk: ch}
			rec.Eval("mutants", 1)
			// non-trivial: got past the header (DecodeHeader accepts)
			if _, acc := runEntry(4, data, gen.NoFault("whole", 0)); acc {
				rec.NonTrivial(hx.FPBytes(data))
				rec.Class("past-header", 1)
			}
			if rec.WantSample() && len(data) < 80 {
				rec.Sample(c)
			}
			if msg, _ := guarded(0, "mutants", data, ch, allEntries); msg != "" {
				fail("", msg, c)
			}
		})
	})
}
