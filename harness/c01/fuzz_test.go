//go:build verif

package c01

import (
	"encoding/hex"
	"os"
	"testing"

	"verif/fitmodel"
	"verif/gen"
	"verif/hx"
)

func chunkFromSeed(s uint8) gen.Chunking {
	switch s % 6 {
	case 0:
		return gen.NoFault("whole", 0)
	case 1:
		return gen.NoFault("one", 0)
	case 2:
		return gen.NoFault("fixed", 1+int(s/6))
	case 3:
		c := gen.NoFault("list", 0)
		c.Sizes = []int{1 + int(s/6), 3, 1, 7}
		return c
	case 4:
		return gen.NoFault("dataeof", 0)
	default:
		c := gen.NoFault("whole", 0)
		c.FaultAt = int(s / 6 * 5)
		return c
	}
}

// FuzzDecodeAll: coverage-guided search for inputs on which an entry point
// panics, returns a malformed result shape or hangs (thorough tier of C01).
func FuzzDecodeAll(f *testing.F) {
	for _, cf := range gen.SmallCorpus(6000) {
		f.Add(cf.Data, uint8(0))
		f.Add(cf.Data, uint8(1))
	}
	// hostile constants: size bytes 0/255, base bytes with reserved bits,
	// data size 0 / 0xFFFFFFFF, 0x0E / 0x0C prefixes
	base := gridFile(nil, 4, 20, 5, 4, 0x86, false, 0xA5)
	f.Add(base, uint8(2))
	for _, mut := range [][2]int{{30, 0}, {30, 255}, {31, 0x8F}, {31, 0x07}, {31, 0x1F}, {29, 253}, {25, 0x60}, {25, 0x4F}} {
		b := append([]byte(nil), base...)
		if mut[0] < len(b) {
			b[mut[0]] = byte(mut[1])
			fitmodel.FixFrame(b, false)
			f.Add(b, uint8(3))
		}
	}
	f.Add([]byte{0x0E, 0x20, 0, 0, 0xFF, 0xFF, 0xFF, 0xFF, '.', 'F', 'I', 'T', 0, 0}, uint8(0))
	f.Add([]byte{0x0C, 0x10, 0, 0, 0, 0, 0, 0, '.', 'F', 'I', 'T', 0, 0}, uint8(4))
	rec := hx.NewRecorder("C01")
	startWatchdog(rec)
	f.Fuzz(func(t *testing.T, data []byte, chunkSeed uint8) {
		if len(data) > 1<<16 {
			return
		}
		ch := chunkFromSeed(chunkSeed)
		if msg, _ := guarded(os.Getpid(), "fuzz", data, ch, allEntries); msg != "" {
			rec.SaveReplay("fuzz", byteCase{Data: hex.EncodeToString(data), Chunk: ch, Note: msg})
			t.Fatal(msg)
		}
	})
}
