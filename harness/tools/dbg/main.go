//go:build verif

package main

import (
	"bytes"
	"encoding/hex"
	"encoding/json"
	"fmt"
	"os"

	"github.com/tormoder/fit"
	"verif/fitmodel"
)

func main() {
	var r struct {
		Case struct {
			File           string `json:"file_hex"`
			BitPos, Length int
			Pattern        uint32
		} `json:"case"`
	}
	data, _ := os.ReadFile(os.Args[1])
	json.Unmarshal(data, &r)
	json.Unmarshal(data, &struct {
		Case *struct {
			File    *string `json:"file_hex"`
			BitPos  *int    `json:"bit_pos"`
			Length  *int    `json:"burst_length"`
			Pattern *uint32 `json:"pattern"`
		} `json:"case"`
	}{&struct {
		File    *string `json:"file_hex"`
		BitPos  *int    `json:"bit_pos"`
		Length  *int    `json:"burst_length"`
		Pattern *uint32 `json:"pattern"`
	}{&r.Case.File, &r.Case.BitPos, &r.Case.Length, &r.Case.Pattern}})
	b, _ := hex.DecodeString(r.Case.File)
	c := append([]byte(nil), b...)
	for i := 0; i < r.Case.Length; i++ {
		if r.Case.Pattern>>uint(i)&1 == 1 {
			p := r.Case.BitPos + i
			c[p/8] ^= 0x80 >> uint(p%8)
		}
	}
	fmt.Println("crc orig", fitmodel.CRC(b), "crc corrupted", fitmodel.CRC(c))
	for i := range b {
		if b[i] != c[i] {
			fmt.Printf("byte %d: %02x -> %02x\n", i, b[i], c[i])
		}
	}
	_, err := fit.Decode(bytes.NewReader(b))
	fmt.Println("orig decode:", err)
	_, err = fit.Decode(bytes.NewReader(c))
	fmt.Println("corrupted decode:", err)
	fmt.Println("corrupted integrity:", fit.CheckIntegrity(bytes.NewReader(c), false))
	p, perr := fitmodel.Parse(b)
	if perr == nil {
		fmt.Println(p.Stream.String()[len(p.Stream.String())-600:])
	} else {
		fmt.Println(perr)
	}
}
