//go:build verif

// Package firstuse holds the "first-use" sub-check shared by C02 and C03: the
// very first Decode calls a process makes come from 16 goroutines released
// together; every one returns what a Decode made afterwards, alone, returns.
// Whatever the library sets up on first use must be ready for all of them.
package firstuse

import (
	"bytes"
	"fmt"
	"os"
	"os/exec"
	"runtime"
	"strings"
	"sync"
	"sync/atomic"

	"github.com/tormoder/fit"

	"verif/fitmodel"
	"verif/hx"
	"verif/prof"
)

// Stream is a small activity file with messages of several types, held and
// not held by an activity file, known and unknown.
func Stream() []byte {
	st := &fitmodel.Stream{HeaderSize: 14, Proto: 0x20, Recs: []fitmodel.Rec{
		{IsDef: true, Global: 0, Fields: []fitmodel.FieldDef{{Num: 0, Size: 1, Base: 0}, {Num: 1, Size: 2, Base: 0x84}}}, {Raw: []byte{4, 1, 0}},
		{IsDef: true, Local: 1, Global: 20, Fields: []fitmodel.FieldDef{{Num: 253, Size: 4, Base: 0x86}, {Num: 3, Size: 1, Base: 2}, {Num: 4, Size: 1, Base: 2}}},
		{IsDef: true, Local: 2, Global: 21, Fields: []fitmodel.FieldDef{{Num: 253, Size: 4, Base: 0x86}, {Num: 0, Size: 1, Base: 0}}},
		{IsDef: true, Local: 3, Global: 19, Fields: []fitmodel.FieldDef{{Num: 253, Size: 4, Base: 0x86}, {Num: 254, Size: 2, Base: 0x84}}},
		{IsDef: true, Local: 4, Global: 0xFF21, Fields: []fitmodel.FieldDef{{Num: 1, Size: 2, Base: 0x84}}},
		{IsDef: true, Local: 5, Global: 26, Fields: []fitmodel.FieldDef{{Num: 4, Size: 1, Base: 0}}},
	}}
	for i := 0; i < 40; i++ {
		st.Recs = append(st.Recs, fitmodel.Rec{Local: 1, Raw: []byte{byte(i), 0xCA, 0x9A, 0x3B, byte(60 + i), byte(80 + i)}})
		if i%10 == 3 {
			st.Recs = append(st.Recs, fitmodel.Rec{Local: 2, Raw: []byte{byte(i), 0xCA, 0x9A, 0x3B, 0}}, fitmodel.Rec{Local: 4, Raw: []byte{1, 2}}, fitmodel.Rec{Local: 5, Raw: []byte{1}})
		}
		if i%20 == 19 {
			st.Recs = append(st.Recs, fitmodel.Rec{Local: 3, Raw: []byte{byte(i), 0xCA, 0x9A, 0x3B, byte(i / 20), 0}})
		}
	}
	return st.Bytes()
}

// WorkerIfAsked turns the process into the child when VERIF_FIRSTUSE_WORKER
// is set (it does not return then).
func WorkerIfAsked() {
	if os.Getenv("VERIF_FIRSTUSE_WORKER") == "" {
		return
	}
	data := Stream()
	const g = 16
	var ready, goFlag int32
	digests := make([]string, g)
	var wg sync.WaitGroup
	for i := 0; i < g; i++ {
		wg.Add(1)
		go func(i int) {
			defer wg.Done()
			defer func() {
				if p := recover(); p != nil {
					digests[i] = fmt.Sprint("PANIC: ", p)
				}
			}()
			atomic.AddInt32(&ready, 1)
			for atomic.LoadInt32(&goFlag) == 0 {
			}
			f, err := fit.Decode(bytes.NewReader(data), fit.WithUnknownMessages(), fit.WithUnknownFields())
			digests[i] = fmt.Sprintf("err=%v\n", err) + prof.Digest(f, prof.DigestOpts{})
		}(i)
	}
	for atomic.LoadInt32(&ready) < g {
		runtime.Gosched()
	}
	atomic.StoreInt32(&goFlag, 1)
	wg.Wait()
	f, err := fit.Decode(bytes.NewReader(data), fit.WithUnknownMessages(), fit.WithUnknownFields())
	want := fmt.Sprintf("err=%v\n", err) + prof.Digest(f, prof.DigestOpts{})
	for i, d := range digests {
		if d != want {
			what := "returned another File (messages missing or misplaced)"
			if strings.HasPrefix(d, "PANIC") {
				what = d
				if k := strings.IndexByte(what, '\n'); k > 0 {
					what = what[:k]
				}
			}
			fmt.Printf("MISMATCH goroutine %d of %d whose Decode calls are the first this process makes: %s; a Decode made alone afterwards returns the file's messages\n", i, g, what)
			os.Exit(3)
		}
	}
	fmt.Println("FIRSTUSE-OK")
	os.Exit(0)
}

// Run starts n fresh children of this test binary and reports the first
// mismatch through fail.
func Run(rec *hx.Recorder, n int, fail func(msg string)) {
	self, err := os.Executable()
	if err != nil {
		rec.Note("first-use: " + err.Error())
		return
	}
	for k := 0; k < n; k++ {
		cmd := exec.Command(self)
		cmd.Env = append(os.Environ(), "VERIF_FIRSTUSE_WORKER=1", "VERIF_OUT=")
		var out, errb bytes.Buffer
		cmd.Stdout, cmd.Stderr = &out, &errb
		err := cmd.Run()
		rec.Eval("first-use", 16)
		switch {
		case err == nil && strings.Contains(out.String(), "FIRSTUSE-OK"):
		case strings.Contains(out.String(), "MISMATCH "):
			msg := out.String()[strings.Index(out.String(), "MISMATCH ")+9:]
			if i := strings.IndexByte(msg, '\n'); i >= 0 {
				msg = msg[:i]
			}
			fail(msg)
			return
		case strings.Contains(errb.String(), "panic:") || strings.Contains(errb.String(), "fatal error:"):
			fail("16 goroutines making the process's first Decode calls crash it: " + strings.SplitN(errb.String(), "\n", 2)[0])
			return
		default:
			rec.Note(fmt.Sprintf("first-use: child ended with %v and no verdict", err))
			return
		}
	}
	rec.NonTrivialEnum(int64(n))
}
