//go:build verif

package c08

import (
	"bytes"
	"encoding/json"
	"fmt"
	"os"
	"os/exec"
	"path/filepath"
	"runtime"
	"strings"
	"sync"
	"testing"

	"github.com/tormoder/fit"
	"pgregory.net/rapid"

	"verif/gen"
	"verif/hx"
	"verif/ops"
	"verif/prof"
)

// child mode: one call as the first library call of a fresh process.
func TestMain(m *testing.M) {
	if dir := os.Getenv("VERIF_C08_CHILD"); dir != "" {
		var p ops.Pool
		data, err := os.ReadFile(filepath.Join(dir, "pool.json"))
		if err == nil {
			err = json.Unmarshal(data, &p)
		}
		var op ops.Op
		if err == nil {
			err = json.Unmarshal([]byte(os.Getenv("VERIF_C08_OP")), &op)
		}
		if err != nil {
			fmt.Println("CHILDERR", err)
			os.Exit(0)
		}
		res := ops.Run(&p, op, nil)
		fmt.Println("RESULT", ops.Hash(res))
		if os.Getenv("VERIF_C08_VERBOSE") != "" {
			fmt.Println(res)
		}
		os.Exit(0)
	}
	os.Exit(m.Run())
}

type history struct {
	Ops  []ops.Op `json:"ops"`
	Note string   `json:"note,omitempty"`
	Seed uint64   `json:"pool_seed"`
}

// loggerInputs is the number of pool inputs the loggerpanic / loggerafter
// call kinds draw from.
const loggerInputs = 12

func TestC08(t *testing.T) {
	hx.Main(t, "C08", func(rec *hx.Recorder) {
		seed := hx.Seed()
		var replayHist *history
		if rp, ok := hx.LoadReplay(); ok {
			replayHist = &history{}
			json.Unmarshal(rp.Case, replayHist)
			if replayHist.Seed != 0 {
				seed = replayHist.Seed
			}
		}
		pool := ops.BuildPool(int(seed))
		for i, sp := range pool.Specs {
			if _, err := gen.BuildFile(sp); err != nil {
				rec.Fail("pool", "HARNESS", fmt.Sprintf("pool File %d cannot be built: %v", i, err), history{Seed: seed})
				return
			}
		}
		dir, err := os.MkdirTemp(os.Getenv("VERIF_BUILD"), "c08pool")
		if err != nil {
			t.Fatal(err)
		}
		defer os.RemoveAll(dir)
		data, _ := json.Marshal(pool)
		os.WriteFile(filepath.Join(dir, "pool.json"), data, 0o644)

		// fresh-process baselines
		var all []ops.Op
		for _, k := range ops.HistoryKinds {
			if strings.HasPrefix(k, "encode") {
				for i := range pool.Specs {
					all = append(all, ops.Op{Kind: k, Idx: i}, ops.Op{Kind: k, Idx: i, BE: true})
				}
				continue
			}
			for i := range pool.Bytes {
				if strings.HasPrefix(k, "logger") && i >= loggerInputs {
					break // these two kinds use the first few inputs only
				}
				all = append(all, ops.Op{Kind: k, Idx: i})
			}
		}
		baseline := map[string]string{}
		var mu sync.Mutex
		var wg sync.WaitGroup
		sem := make(chan struct{}, runtime.NumCPU())
		var childErr error
		for _, op := range all {
			wg.Add(1)
			go func(op ops.Op) {
				defer wg.Done()
				sem <- struct{}{}
				defer func() { <-sem }()
				js, _ := json.Marshal(op)
				cmd := exec.Command(os.Args[0])
				cmd.Env = append(os.Environ(), "VERIF_C08_CHILD="+dir, "VERIF_C08_OP="+string(js), "VERIF_OUT=")
				out, err := cmd.Output()
				mu.Lock()
				defer mu.Unlock()
				line := strings.TrimSpace(string(out))
				if err != nil || !strings.HasPrefix(line, "RESULT ") {
					childErr = fmt.Errorf("child for %v: %v %q", op, err, line)
					return
				}
				baseline[op.String()] = strings.TrimPrefix(strings.Split(line, "\n")[0], "RESULT ")
			}(op)
		}
		wg.Wait()
		if childErr != nil {
			rec.Fail("baseline", "HARNESS", childErr.Error(), history{})
			return
		}
		rec.Class("fresh-process baselines", int64(len(baseline)))

		// the same call as first call of two fresh processes must agree
		// (Encode determinism across processes): run the encode baselines twice
		for _, op := range all {
			if !strings.HasPrefix(op.Kind, "encode") {
				continue
			}
			js, _ := json.Marshal(op)
			cmd := exec.Command(os.Args[0])
			cmd.Env = append(os.Environ(), "VERIF_C08_CHILD="+dir, "VERIF_C08_OP="+string(js), "VERIF_OUT=")
			out, _ := cmd.Output()
			got := strings.TrimPrefix(strings.Split(strings.TrimSpace(string(out)), "\n")[0], "RESULT ")
			rec.Eval("encode-across-processes", 1)
			if got != baseline[op.String()] {
				rec.Fail("encode-across-processes", "", fmt.Sprintf("%v gives different results in two fresh processes (Encode output is not a function of the File)", op), history{Ops: []ops.Op{op}, Seed: seed})
			}
		}

		// library state, if any, outlives a rapid case: the history that
		// matters for a failure is everything this process has called so far
		var procHist []ops.Op
		step := func(h *history, files map[int]*fit.File, op ops.Op) (string, bool) {
			h.Ops = append(h.Ops, op)
			procHist = append(procHist, op)
			raw := ops.Run(pool, op, files)
			if i := strings.Index(raw, "OUTSIDE-THE-FILE: "); i >= 0 {
				return fmt.Sprintf("%v wrote into memory of the caller that is not part of the File: %s", op, raw[i+18:]), false
			}
			if v := ops.Verdict(raw); v != "" {
				return fmt.Sprintf("%v: %s", op, strings.ToLower(v)), false
			}
			got := ops.Hash(raw)
			if want := baseline[op.String()]; got != want {
				if len(procHist) > len(h.Ops) {
					// replay needs the calls of earlier cases too (bounded)
					from := len(procHist) - 400
					if from < 0 {
						from = 0
					}
					h.Ops = append([]ops.Op(nil), procHist[from:]...)
					h.Note = "includes the calls of earlier generated histories in the same process"
				}
				prev := "none"
				if len(h.Ops) > 1 {
					prev = fmt.Sprint(h.Ops[:len(h.Ops)-1])
				}
				return fmt.Sprintf("%v returned a different result after the history %s than as the first call of a fresh process (input: %s)", op, prev, name(pool, op)), false
			}
			return "", true
		}

		if replayHist != nil {
			rec.Eval("replay", 1)
			h := &history{Seed: seed}
			files := map[int]*fit.File{}
			for _, op := range replayHist.Ops {
				if !ops.Valid(pool, op) {
					continue
				}
				if msg, ok := step(h, files, op); !ok {
					rec.Fail("histories", "", msg, h)
					return
				}
			}
			return
		}

		// K1 reproduction: decode an accumulating stream twice, compare Distance
		if hx.Open("K1") {
			for i, n := range pool.Names {
				if n != "accumulating stream" {
					continue
				}
				f1, _ := fit.Decode(bytes.NewReader(pool.Bytes[i]))
				f2, _ := fit.Decode(bytes.NewReader(pool.Bytes[i]))
				full := prof.DigestOpts{}
				if f1 != nil && f2 != nil && prof.Digest(f1, full) != prof.Digest(f2, full) {
					rec.Known("K1", "decoding the same accumulating stream twice in one process gives different record.distance values")
					rec.Excluded("K1", 1)
				}
				break
			}
		}

		hx.RapidCheck(t, rec, "histories", func(rt *rapid.T, fail func(string, string, any)) {
			d := gen.D{T: rt}
			h := &history{Seed: seed}
			files := map[int]*fit.File{}
			differentBefore := false
			do := func(op ops.Op) {
				if len(h.Ops) > 0 && (h.Ops[len(h.Ops)-1].Idx != op.Idx || h.Ops[len(h.Ops)-1].Kind != op.Kind) {
					differentBefore = true
				}
				rec.Eval("histories", 1)
				if msg, ok := step(h, files, op); !ok {
					fail("", msg, h)
				}
			}
			actions := map[string]func(*rapid.T){}
			for _, k := range ops.HistoryKinds {
				k := k
				actions[k] = func(rt *rapid.T) {
					op := ops.Op{Kind: k}
					if strings.HasPrefix(k, "encode") {
						op.Idx = d.Int(0, len(pool.Specs)-1, "spec")
						op.BE = d.Bool("be")
					} else {
						op.Idx = d.Int(0, len(pool.Bytes)-1, "input")
						if strings.HasPrefix(k, "logger") {
							op.Idx %= loggerInputs
						}
					}
					do(op)
				}
			}
			actions["repeatLast"] = func(rt *rapid.T) {
				if len(h.Ops) == 0 {
					return // nothing to repeat yet (an action never skips)
				}
				do(h.Ops[len(h.Ops)-1])
			}
			rt.Repeat(actions)
			if len(h.Ops) >= 3 && differentBefore {
				rec.NonTrivial(hx.FP(fmt.Sprint(h.Ops)))
				rec.Class("history >=3 calls with a call preceded by a different one", 1)
			}
			if rec.WantSample() && len(h.Ops) >= 3 && len(h.Ops) < 12 {
				var names []string
				for _, op := range h.Ops {
					names = append(names, op.String())
				}
				rec.Sample(names)
			}
		})
	})
}

func name(p *ops.Pool, op ops.Op) string {
	if strings.HasPrefix(op.Kind, "encode") {
		return fmt.Sprintf("File spec %d (type %d)", op.Idx, p.Specs[op.Idx].Type)
	}
	return p.Names[op.Idx]
}
