//go:build verif

package c05

import (
	"bytes"
	"encoding/binary"
	"encoding/json"
	"fmt"
	"io"
	"os"
	"reflect"
	"testing"
	"unicode/utf8"

	"github.com/tormoder/fit"
	"pgregory.net/rapid"

	"verif/fitmodel"
	"verif/gen"
	"verif/hx"
	"verif/oracle"
	"verif/prof"
)

func order(be bool) binary.ByteOrder {
	if be {
		return binary.BigEndian
	}
	return binary.LittleEndian
}

// expectedWire returns the bytes the value v of profile field fi must have on
// the wire under the model mapping: scalars in the definition's byte order,
// strings NUL padded to the profile length (cut to length-1 bytes), arrays cut
// or padded with the invalid pattern to the profile length, times as seconds
// since the FIT epoch (local times: wall-clock seconds), coordinates as
// semicircles.
func expectedWire(fi *fitmodel.FieldInfo, v fitmodel.Val, be bool) ([]byte, bool) {
	bt := fitmodel.MustBase(fi.Base)
	scalar := func(e fitmodel.Val) []byte {
		switch e.K {
		case 'u':
			return fitmodel.PutWireUint(e.U, bt.Size, be)
		case 'i', 'c':
			return fitmodel.PutWireUint(uint64(e.I), bt.Size, be)
		case 't':
			sec := e.I - fitmodel.FitEpochUnix
			if fi.Kind == fitmodel.KindTimeLocal {
				sec += int64(e.Off)
			}
			return fitmodel.PutWireUint(uint64(uint32(sec)), 4, be)
		}
		return nil
	}
	switch {
	case bt.String && !fi.Array:
		out := make([]byte, fi.Length)
		s := v.S
		if len(s) > fi.Length-1 {
			// an over-long string is cut to the longest prefix of whole
			// characters that leaves room for the terminator
			n := fi.Length - 1
			for n > 0 && !utf8.RuneStart(s[n]) {
				n--
			}
			s = s[:n]
		}
		copy(out, s)
		return out, true
	case bt.String:
		return nil, false
	case fi.Array:
		var out []byte
		elems := v.Elems
		if len(elems) > fi.Length {
			elems = elems[:fi.Length]
		}
		for _, e := range elems {
			out = append(out, scalar(e)...)
		}
		for i := len(elems); i < fi.Length; i++ {
			out = append(out, fitmodel.PutWireUint(bt.Invalid, bt.Size, be)...)
		}
		return out, true
	}
	b := scalar(v)
	return b, b != nil
}

// checkEncode encodes the File described by fs and checks the written bytes.
func checkEncode(fs *gen.FileSpec, labels map[string]int) (string, bool) {
	f, err := gen.BuildFile(fs)
	if err != nil {
		return "HARNESS: " + err.Error(), false
	}
	if fs.SubSecond || fs.ZonedUTC || fs.SameTime {
		if prof.TweakTimes(f, fs.SubSecond, fs.ZonedUTC, fs.SameTime) > 0 {
			if fs.SubSecond {
				labels["times with a fractional part"]++
			}
			if fs.ZonedUTC {
				labels["date_time fields shown in a zone"]++
			}
		}
	}
	aliased := 0
	if fs.Aliased {
		// the File's arrays are overlapping views of one buffer
		if aliased = prof.AliasArrays(f); aliased > 0 {
			labels["arrays sharing a buffer"]++
		}
	}
	if fs.Prelude != "" {
		// an Encode call that fails comes first; what the next call writes
		// must not depend on it
		if f0, err := gen.BuildFile(fs); err == nil {
			oracle.Catch(func() {
				switch fs.Prelude {
				case "badstring":
					f0.FileId.ProductName = "ab\xff\xfe"
					var sink bytes.Buffer
					if fit.Encode(&sink, f0, order(fs.BigEndian)) != nil {
						labels["after a failing Encode"]++
					}
				case "failwriter":
					if fit.Encode(&refusingWriter{left: 9}, f0, order(fs.BigEndian)) != nil {
						labels["after a failing Encode"]++
					}
				}
			})
		}
	}
	var buf bytes.Buffer
	var eerr error
	if p := oracle.Catch(func() { eerr = fit.Encode(&buf, f, order(fs.BigEndian)) }); p != nil {
		return fmt.Sprintf("Encode panicked: %v", p), false
	}
	if eerr != nil {
		// Rejecting a File is not covered by this property unless bytes
		// were written nevertheless.
		labels["encode-error"]++
		if buf.Len() != 0 {
			return fmt.Sprintf("Encode returned %v after writing %d bytes", eerr, buf.Len()), false
		}
		if !specHasBadString(fs) {
			return fmt.Sprintf("Encode rejected a File whose strings are all valid UTF-8: %v", eerr), false
		}
		return "", true
	}
	if aliased == 0 {
		if msg := prof.SpareIntact(f); msg != "" {
			return "Encode wrote into memory of the caller that is not part of the File: " + msg, false
		}
	} else if fresh, err := gen.BuildFile(fs); err == nil {
		prof.TweakTimes(fresh, fs.SubSecond, fs.ZonedUTC, fs.SameTime)
		if a, b := prof.FileValues(f), prof.FileValues(fresh); a != b {
			return fmt.Sprintf("Encode changed the values of the File it was given (its arrays are views of one buffer):\nbefore:\n%s\nafter:\n%s", trunc(b), trunc(a)), false
		}
	}
	data := buf.Bytes()
	if msg := gen.CheckWriterKind(os.Getenv("VERIF_BUILD"), len(data)+len(fs.Slots)+1, data, func(w io.Writer) error {
		again, err := gen.BuildFile(fs)
		if err != nil {
			return err
		}
		if fs.Aliased {
			prof.AliasArrays(again)
		}
		prof.TweakTimes(again, fs.SubSecond, fs.ZonedUTC, fs.SameTime)
		return fit.Encode(w, again, order(fs.BigEndian))
	}); msg != "" {
		return "Encode: " + msg, false
	}
	p, perr := fitmodel.Parse(data)
	if perr != nil {
		return fmt.Sprintf("output does not parse under the FIT grammar: %v\nbytes: %s", perr, hx.Hex(data)), false
	}
	wantHS := byte(12)
	if fs.HdrCRC {
		wantHS = 14
	}
	if p.Stream.HeaderSize != wantHS {
		return fmt.Sprintf("header size %d, File.Header.Size %d", p.Stream.HeaderSize, wantHS), false
	}
	if fs.HdrCRC && p.HeaderCRC == 0 && fitmodel.CRC(data[:12]) != 0 {
		return "14-byte header written with a zero CRC", false
	}
	if p.Stream.ProfileVer != uint16(f.Header.ProfileVersion) {
		return fmt.Sprintf("profile version on the wire is %d, File.Header.ProfileVersion is %d", p.Stream.ProfileVer, f.Header.ProfileVersion), false
	}
	if fs.HdrCRC {
		if herr := f.Header.CheckIntegrity(); herr != nil {
			return fmt.Sprintf("File.Header.CheckIntegrity() after Encode: %v (header %v)", herr, f.Header), false
		}
	}
	if p.Stream.Proto != fs.Proto {
		return fmt.Sprintf("protocol version byte %#x, header says %#x", p.Stream.Proto, fs.Proto), false
	}
	// Post-conditions on the File.
	if f.Header.DataSize != p.DataSize {
		return fmt.Sprintf("file.Header.DataSize=%d after Encode, bytes carry %d", f.Header.DataSize, p.DataSize), false
	}
	if f.CRC != p.FileCRC {
		return fmt.Sprintf("file.CRC=%#04x after Encode, bytes carry %#04x", f.CRC, p.FileCRC), false
	}
	if fs.HdrCRC && f.Header.CRC != p.HeaderCRC {
		return fmt.Sprintf("file.Header.CRC=%#04x after Encode, bytes carry %#04x", f.Header.CRC, p.HeaderCRC), false
	}

	// Messages of the File in the order the slots are declared.
	f2, _ := gen.BuildFile(fs) // untouched copy of the values
	if fs.SameTime {
		prof.SameTimes(f2) // (this one changes a value: the expectation follows)
	}
	var msgs []reflect.Value
	for _, s := range append(prof.FileSlots(), prof.Slots(f2.Type())...) {
		for _, m := range prof.SlotMsgs(f2, s) {
			if m.IsValid() {
				msgs = append(msgs, m)
			}
		}
	}
	tab := prof.Table()
	mi := 0
	for ri, r := range p.Stream.Recs {
		if r.IsDef {
			if r.BigEndian != fs.BigEndian {
				return fmt.Sprintf("definition %d has byte order bigEndian=%v, Encode was asked for %v", ri, r.BigEndian, fs.BigEndian), false
			}
			continue
		}
		if r.Compressed {
			return "Encode wrote a compressed timestamp header", false
		}
		if mi >= len(msgs) {
			return fmt.Sprintf("more data records than messages in the File (%d)", len(msgs)), false
		}
		def := p.Stream.Recs[p.DefOfData[ri]]
		msg := msgs[mi]
		mi++
		num, _ := prof.MsgNumOfType(msg.Type().Name())
		if def.Global != num {
			return fmt.Sprintf("data record %d is message %d, expected %s (%d) at this position", ri, def.Global, msg.Type().Name(), num), false
		}
		minfo := tab.Msgs[num]
		onWire := map[int]bool{}
		off := 0
		for _, fd := range def.Fields {
			raw := r.Raw[off : off+int(fd.Size)]
			off += int(fd.Size)
			fi := minfo.Fields[fd.Num]
			if fi == nil {
				return fmt.Sprintf("record %d: field number %d is not a field of %s", ri, fd.Num, minfo.Name), false
			}
			if onWire[fi.SIndex] {
				return fmt.Sprintf("record %d: field %d defined twice", ri, fd.Num), false
			}
			onWire[fi.SIndex] = true
			if fd.Base != fi.Base {
				return fmt.Sprintf("record %d: field %s written with base type %#02x, profile says %#02x", ri, fi.Name, fd.Base, fi.Base), false
			}
			v := prof.FromReflect(msg.Field(fi.SIndex))
			want, ok := expectedWire(fi, v, def.BigEndian)
			if !ok {
				continue
			}
			if !bytes.Equal(raw, want) {
				return fmt.Sprintf("record %d: %s.%s = %s in the File, wire bytes %x, expected %x (bigEndian=%v)", ri, minfo.Name, fi.Name, v, raw, want, def.BigEndian), false
			}
			labels["wire-fields"]++
		}
		// every set field must be on the wire
		for i, fi := range minfo.BySIdx {
			if fi == nil || onWire[i] {
				continue
			}
			v := prof.FromReflect(msg.Field(i))
			if !oracle.Normalize(v, fi).Equal(fitmodel.InvalidVal(fi)) && v.K != 'n' {
				if fitmodel.MustBase(fi.Base).String && fi.Array {
					continue
				}
				return fmt.Sprintf("record %d: %s.%s = %s is set in the File but not on the wire", ri, minfo.Name, fi.Name, v), false
			}
		}
	}
	if mi != len(msgs) {
		return fmt.Sprintf("%d data records for %d messages in the File", mi, len(msgs)), false
	}
	return "", true
}

// refusingWriter accepts a few bytes and then fails.
type refusingWriter struct{ left int }

func (w *refusingWriter) Write(p []byte) (int, error) {
	if len(p) > w.left {
		n := w.left
		w.left = 0
		return n, fmt.Errorf("verif: writer refuses further data")
	}
	w.left -= len(p)
	return len(p), nil
}

func specHasBadString(fs *gen.FileSpec) bool {
	bad := false
	visit := func(ms gen.MsgSpec) {
		for _, v := range ms.Fields {
			switch {
			case v.K == 's':
				if !utf8.ValidString(v.S) {
					bad = true
				}
			case v.K == 'a' && len(v.Elems) > 0 && v.Elems[0].K == 's':
				bad = true
			}
		}
	}
	visit(fs.FileId)
	for _, s := range fs.Slots {
		for _, m := range s.Msgs {
			visit(m)
		}
	}
	return bad
}

func unionLabel(fs *gen.FileSpec) bool {
	for _, s := range fs.Slots {
		if len(s.Msgs) < 2 {
			continue
		}
		first := fmt.Sprint(keys(s.Msgs[0].Fields))
		for _, m := range s.Msgs[1:] {
			if fmt.Sprint(keys(m.Fields)) != first {
				return true
			}
		}
	}
	return false
}

func keys(m map[string]fitmodel.Val) []string {
	var out []string
	for k := range m {
		out = append(out, k)
	}
	// sorted for determinism
	for i := range out {
		for j := i + 1; j < len(out); j++ {
			if out[j] < out[i] {
				out[i], out[j] = out[j], out[i]
			}
		}
	}
	return out
}

func TestC05(t *testing.T) {
	hx.Main(t, "C05", func(rec *hx.Recorder) {
		if rp, ok := hx.LoadReplay(); ok {
			var fs gen.FileSpec
			if err := json.Unmarshal(rp.Case, &fs); err != nil {
				t.Fatal(err)
			}
			rec.Eval("replay", 1)
			if msg, ok := checkEncode(&fs, map[string]int{}); !ok {
				rec.Fail(rp.Sub, "", msg, &fs)
			}
			return
		}
		if hx.FirstShard() {
			// deterministic: every file type, empty and with one all-invalid message per slot
			n := int64(0)
			for _, ft := range prof.FileTypes {
				for _, hc := range []bool{false, true} {
					for _, be := range []bool{false, true} {
						fs := &gen.FileSpec{Type: int(ft), HdrCRC: hc, Proto: 0x20, BigEndian: be, FileId: gen.MsgSpec{Fields: map[string]fitmodel.Val{}}}
						n++
						if msg, ok := checkEncode(fs, map[string]int{}); !ok {
							rec.Fail("empty", "", msg, fs)
						}
						for _, s := range prof.Slots(ft) {
							fs.Slots = append(fs.Slots, gen.SlotSpec{Name: s.Name, Msgs: []gen.MsgSpec{{Global: s.Msg, Fields: map[string]fitmodel.Val{}}}})
						}
						n++
						if msg, ok := checkEncode(fs, map[string]int{}); !ok {
							rec.Fail("all-invalid", "", msg, fs)
						}
					}
				}
			}
			rec.Eval("empty+all-invalid", n)

			// sparse: a file_id with nothing but the type, and every other
			// message carrying exactly one field - its first struct field
			// when that is a one-byte scalar (then several messages of
			// different types have byte-identical definitions apart from the
			// message number), else its first scalar field
			ns := int64(0)
			for _, ft := range prof.FileTypes {
				for _, be := range []bool{false, true} {
					fs := &gen.FileSpec{Type: int(ft), HdrCRC: be, Proto: 0x20, BigEndian: be, FileId: gen.MsgSpec{Fields: map[string]fitmodel.Val{}}}
					for _, s := range append(prof.FileSlots(), prof.Slots(ft)...) {
						if s.Name == "FileId" {
							continue
						}
						mi := prof.Table().Msgs[s.Msg]
						var pick *fitmodel.FieldInfo
						for _, fi := range mi.BySIdx {
							if fi == nil || fi.Array || fi.Kind != fitmodel.KindNative {
								continue
							}
							bt := fitmodel.MustBase(fi.Base)
							if bt.String || bt.Float {
								continue
							}
							pick = fi
							break
						}
						if pick == nil {
							continue
						}
						v := fitmodel.U(1)
						if fitmodel.MustBase(pick.Base).Signed {
							v = fitmodel.I(1)
						}
						fs.Slots = append(fs.Slots, gen.SlotSpec{Name: s.Name, InFile: s.InFile, Msgs: []gen.MsgSpec{{Global: s.Msg, Fields: map[string]fitmodel.Val{pick.Name: v}}}})
					}
					ns++
					if msg, ok := checkEncode(fs, map[string]int{}); !ok {
						rec.Fail("sparse", "", msg, fs)
					}
				}
			}
			rec.Eval("sparse", ns)
			rec.NonTrivialEnum(ns)

			// arrays that are views of one buffer: for every array field
			// (of numbers) of every message a file type holds many of,
			// three messages whose arrays - each shorter than the profile
			// length, each full length, and each one element - are
			// consecutive pieces buf[a:b] of one buffer
			na := int64(0)
			seenField := map[string]bool{}
			for _, ft := range prof.FileTypes {
				for _, s := range prof.Slots(ft) {
					if !s.Multi {
						continue
					}
					mi := prof.Table().Msgs[s.Msg]
					for _, fi := range mi.BySIdx {
						if fi == nil || !fi.Array || fitmodel.MustBase(fi.Base).String || fi.Kind != fitmodel.KindNative {
							continue
						}
						key := fmt.Sprint(s.Msg, "/", fi.Name)
						if seenField[key] {
							continue
						}
						seenField[key] = true
						lens := []int{1}
						if fi.Length > 2 {
							lens = append(lens, fi.Length-2)
						}
						if fi.Length > 0 {
							lens = append(lens, fi.Length)
						}
						for li, l := range lens {
							fs := &gen.FileSpec{Type: int(ft), Proto: 0x20, BigEndian: li%2 == 1, Aliased: true, FileId: gen.MsgSpec{Fields: map[string]fitmodel.Val{}}}
							var msgs []gen.MsgSpec
							for m := 0; m < 3; m++ {
								elems := make([]fitmodel.Val, l)
								for e := range elems {
									if fitmodel.MustBase(fi.Base).Float {
										elems[e] = fitmodel.F(float64(10*(m+1) + e))
									} else if fitmodel.MustBase(fi.Base).Signed {
										elems[e] = fitmodel.I(int64(10*(m+1) + e))
									} else {
										elems[e] = fitmodel.U(uint64(10*(m+1) + e))
									}
								}
								msgs = append(msgs, gen.MsgSpec{Global: s.Msg, Fields: map[string]fitmodel.Val{fi.Name: fitmodel.Arr(elems)}})
							}
							fs.Slots = []gen.SlotSpec{{Name: s.Name, Msgs: msgs}}
							na++
							labels := map[string]int{}
							if msg, ok := checkEncode(fs, labels); !ok {
								rec.Fail("aliased", "", msg, fs)
							}
							if labels["arrays sharing a buffer"] == 0 {
								rec.Note("aliased: " + key + ": arrays not aliased")
							}
						}
					}
				}
			}
			rec.Eval("aliased", na)
			rec.NonTrivialEnum(na)

			// same time: every message with a date_time and a
			// local_date_time field (activity, monitoring, monitoring_info,
			// schedule, timestamp_correlation ...) with both fields holding
			// the identical zoned time.Time value, in every file type that
			// holds the message, both byte orders
			nst := int64(0)
			for _, ft := range prof.FileTypes {
				for _, s := range append(prof.FileSlots(), prof.Slots(ft)...) {
					mi := prof.Table().Msgs[s.Msg]
					if mi == nil || s.Name == "FileId" {
						continue
					}
					var utcName, localName string
					for _, fi := range mi.BySIdx {
						if fi == nil {
							continue
						}
						if fi.Kind == fitmodel.KindTimeUTC && utcName == "" {
							utcName = fi.Name
						}
						if fi.Kind == fitmodel.KindTimeLocal && localName == "" {
							localName = fi.Name
						}
					}
					if utcName == "" || localName == "" {
						continue
					}
					for _, be := range []bool{false, true} {
						fs := &gen.FileSpec{Type: int(ft), Proto: 0x20, BigEndian: be, SameTime: true, FileId: gen.MsgSpec{Fields: map[string]fitmodel.Val{}},
							Slots: []gen.SlotSpec{{Name: s.Name, InFile: s.InFile, Msgs: []gen.MsgSpec{{Global: s.Msg, Fields: map[string]fitmodel.Val{
								utcName: fitmodel.T(1086179400+631065600, 0), localName: fitmodel.T(1086179400+631065600, 0)}}}}}}
						nst++
						if msg, ok := checkEncode(fs, map[string]int{}); !ok {
							rec.Fail("same-time", "", msg, fs)
						}
					}
				}
			}
			rec.Eval("same-time", nst)
			rec.NonTrivialEnum(nst)

			// a data section beyond 64 KiB and beyond 128 KiB (the encoder
			// buffers all records and checksums them in one piece)
			for _, nrec := range []int{2300, 4700} {
				for _, be := range []bool{false, true} {
					fs := &gen.FileSpec{Type: int(fit.FileTypeActivity), HdrCRC: true, Proto: 0x20, BigEndian: be, FileId: gen.MsgSpec{Fields: map[string]fitmodel.Val{}}}
					var msgs []gen.MsgSpec
					for i := 0; i < nrec; i++ {
						msgs = append(msgs, gen.MsgSpec{Global: 20, Fields: map[string]fitmodel.Val{
							"Timestamp":   fitmodel.T(fitmodel.FitEpochUnix+1000000000+int64(i), 0),
							"PositionLat": fitmodel.C(int32(500000000 + i*37)), "PositionLong": fitmodel.C(int32(-100000000 - i*91)),
							"HeartRate": fitmodel.U(uint64(60 + i%140)), "Cadence": fitmodel.U(uint64(i % 120)), "Power": fitmodel.U(uint64(i % 1500)),
							"Temperature": fitmodel.I(int64(i%60 - 20)), "Grade": fitmodel.I(int64(i%2000 - 1000)),
							"AccumulatedPower": fitmodel.U(uint64(i) * 211), "EnhancedSpeed": fitmodel.U(uint64(i%20000 + 1)), "EnhancedAltitude": fitmodel.U(uint64(2500 + i%9000)),
						}})
					}
					fs.Slots = []gen.SlotSpec{{Name: "Records", Msgs: msgs}}
					labels := map[string]int{}
					msg, ok := checkEncode(fs, labels)
					rec.Eval("big-file", 1)
					rec.NonTrivialEnum(1)
					if !ok {
						rec.Fail("big-file", "", fmt.Sprintf("activity with %d records: %s", nrec, trunc(msg)), fs)
					}
				}
			}

		}

		hx.RapidCheck(t, rec, "files", func(rt *rapid.T, fail func(string, string, any)) {
			o := gen.DefaultFileOpts()
			o.OutDomain = true
			fs := gen.GenFile(gen.D{T: rt}, o)
			fs.Prelude = []string{"", "", "", "badstring", "failwriter"}[rapid.IntRange(0, 4).Draw(rt, "prelude")]
			labels := map[string]int{}
			rec.Eval("files", 1)
			msg, ok := checkEncode(fs, labels)
			if unionLabel(fs) {
				rec.Class("slot with >=2 messages whose set-field sets differ", 1)
				raw, _ := json.Marshal(fs)
				rec.NonTrivial(hx.FPBytes(raw))
			}
			if fs.BigEndian {
				rec.Class("big-endian", 1)
			}
			if fs.HdrCRC {
				rec.Class("14-byte header", 1)
			}
			rec.Class("wire-fields-compared", int64(labels["wire-fields"]))
			rec.Class("encode-error (no bytes written)", int64(labels["encode-error"]))
			rec.Class("encoded right after a failing Encode call", int64(labels["after a failing Encode"]))
			if rec.WantSample() && len(fs.Slots) <= 2 && unionLabel(fs) {
				rec.Sample(fs)
			}
			if !ok {
				fail("", msg, fs)
			}
		})
	})
}

func trunc(s string) string {
	if len(s) > 600 {
		return s[:600] + "…"
	}
	return s
}
