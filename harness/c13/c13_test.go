//go:build verif

package c13

import (
	"bytes"
	"encoding/json"
	"fmt"
	"strings"
	"testing"

	"github.com/tormoder/fit"
	"pgregory.net/rapid"

	"verif/fitmodel"
	"verif/gen"
	"verif/hx"
	"verif/oracle"
	"verif/prof"
)

type streamCase struct {
	FileType int              `json:"file_type"`
	Stream   *fitmodel.Stream `json:"stream"`
	Text     string           `json:"text"`
}

// checkStream decodes the stream and compares with the interpreter's slot
// model. If the interpreter says record i uses an undefined local type,
// Decode must fail and the partial File must hold exactly the earlier
// messages.
func checkStream(rec *hx.Recorder, c streamCase) (string, bool) {
	tab := prof.Table()
	ip := fitmodel.Interpret(c.Stream, tab)
	var f *fit.File
	var err error
	if p := oracle.Catch(func() { f, err = fit.Decode(bytes.NewReader(c.Stream.Bytes())) }); p != nil {
		return fmt.Sprintf("Decode panicked: %v\nstream: %s", p, c.Text), false
	}
	if ip.FailRec >= 0 {
		if !strings.Contains(ip.FailWhy, "undefined local type") {
			return "HARNESS: " + ip.FailWhy, false
		}
		if err == nil {
			return fmt.Sprintf("Decode accepted a data record whose local type has no definition (record %d)\nstream: %s", ip.FailRec, c.Text), false
		}
	} else if err != nil {
		return fmt.Sprintf("Decode failed: %v\nstream: %s", err, c.Text), false
	}
	if f == nil {
		return "Decode returned no File\nstream: " + c.Text, false
	}
	exp := oracle.Expect(ip, fit.FileType(c.FileType), true)
	// File.FileId is a struct value: it exists (zero) even when the stream was
	// rejected before any file_id message
	noFileID := true
	for _, m := range ip.Msgs {
		if m.Global == 0 {
			noFileID = false
		}
	}
	diffs, _, und := oracle.Compare(f, exp, oracle.CompareOpts{SkipFileId: noFileID})
	rec.Undecided(int64(und))
	var real []string
	for _, d := range diffs {
		if d.AccDst {
			if id := oracle.AccFinding(d.Field, hx.Open); id != "" {
				rec.Excluded(id, 1)
				continue
			}
		}
		real = append(real, d.String())
	}
	if len(real) > 0 {
		if len(real) > 6 {
			real = real[:6]
		}
		return "records were not interpreted with the latest definition of their local type:\n" + strings.Join(real, "\n") + "\nstream: " + c.Text, false
	}
	return "", true
}

// machine is the state of the generated history.
type machine struct {
	d        gen.D
	ft       fit.FileType
	hosted   []uint16
	s        *fitmodel.Stream
	slots    [16]*fitmodel.Rec
	o        gen.StreamOpts
	labels   map[string]int
	live     map[int]bool
	finished bool
}

func (m *machine) define(local int) {
	g := m.hosted[m.d.Int(0, len(m.hosted)-1, "msg")]
	unknown := m.d.Int(0, 7, "unknownmsg") == 0
	if unknown {
		// a message number the profile does not know (its records are
		// skipped), on a local type that may have held a known message
		pool := gen.UnknownMsgPool()
		g = pool[m.d.Int(0, len(pool)-1, "unkg")]
		m.labels["definition-of-an-unknown-message"]++
	}
	def := fitmodel.Rec{IsDef: true, Local: byte(local), Global: g, BigEndian: m.d.Bool("be")}
	mi := prof.Table().Msgs[g]
	nums := prof.FieldNums(g)
	if unknown {
		nums = nil
		for k := m.d.Int(0, 3, "nunkf"); k > 0; k-- {
			def.Fields = append(def.Fields, fitmodel.FieldDef{Num: byte(len(def.Fields) + 1), Size: byte(m.d.Int(1, 4, "unkfsize")), Base: 0x0D})
		}
	}
	if len(nums) > 0 {
		nf := m.d.Int(1, 5, "nf")
		start := m.d.Int(0, len(nums)-1, "fs")
		for k := 0; k < nf && k < len(nums); k++ {
			fi := mi.Fields[nums[(start+k*3)%len(nums)]]
			if fi.SIndex < 0 || fi.SIndex >= mi.NFields {
				continue
			}
			dup := false
			for _, f := range def.Fields {
				if f.Num == fi.Num {
					dup = true
				}
			}
			if !dup {
				def.Fields = append(def.Fields, gen.DrawFieldDef(m.d, fi, &m.o))
			}
		}
	}
	if m.d.Int(0, 4, "devflds") == 0 {
		def.HasDev = true
		for k := m.d.Int(0, 2, "ndev"); k > 0; k-- {
			def.Dev = append(def.Dev, fitmodel.DevFieldDef{Num: byte(m.d.Int(0, 3, "devnum")), Size: byte(m.d.Int(1, 4, "devsize")), Idx: byte(m.d.Int(0, 1, "devidx"))})
		}
		m.labels["definition-with-developer-fields"]++
	}
	if old := m.slots[local]; old != nil {
		m.labels["redefinition"]++
		if old.Global != g {
			m.labels["redefinition-other-message"]++
		}
		if old.BigEndian != def.BigEndian {
			m.labels["redefinition-other-byte-order"]++
		}
	}
	m.s.Recs = append(m.s.Recs, def)
	dc := def
	m.slots[local] = &dc
	m.live[local] = true
}

func hasField(fds []fitmodel.FieldDef, num byte) bool {
	for _, fd := range fds {
		if fd.Num == num {
			return true
		}
	}
	return false
}

func (m *machine) data(local int, compressed bool) {
	def := m.slots[local]
	r := fitmodel.Rec{Local: byte(local)}
	if compressed {
		r.Compressed = true
		r.TimeOffset = byte(m.d.Int(0, 31, "toff"))
		m.labels["compressed"]++
		if local > 0 {
			m.labels["compressed-on-slot-1-3"]++
		}
	}
	mi := prof.Table().Msgs[def.Global]
	for _, fd := range def.Fields {
		kind := 0
		if mi != nil && mi.Fields[fd.Num] != nil {
			kind = mi.Fields[fd.Num].Kind
		}
		r.Raw = append(r.Raw, gen.FieldBytes(m.d, fd, def.BigEndian, &m.o, nil, kind)...)
	}
	for _, dv := range def.Dev {
		r.Raw = append(r.Raw, m.d.Bytes(int(dv.Size), "devraw")...)
	}
	m.s.Recs = append(m.s.Recs, r)
}

// fieldDescription emits a field_description message (its definition on a
// local type other than holder, then the record) that describes developer
// field dv of the definition in force on local type holder, with a drawn base
// type. Messages are content: they never change how local types are defined.
func (m *machine) fieldDescription(holder int, dv fitmodel.DevFieldDef) {
	mi := prof.Table().Msgs[206]
	if mi == nil {
		return
	}
	local := m.d.Int(0, 15, "fdesclocal")
	if local == holder {
		local = (local + 1) % 16
	}
	def := fitmodel.Rec{IsDef: true, Local: byte(local), Global: 206, BigEndian: m.d.Bool("fdescbe")}
	vals := map[byte]byte{0: dv.Idx, 1: dv.Num, 2: []byte{0x02, 0x84, 0x86, 0x88, 0x8E, 0x01, 0x07, 0x0D}[m.d.Int(0, 7, "fdescbase")]}
	var raw []byte
	for _, n := range []byte{0, 1, 2} {
		if fi := mi.Fields[n]; fi != nil && fitmodel.MustBase(fi.Base).Size == 1 && !fi.Array {
			def.Fields = append(def.Fields, fitmodel.FieldDef{Num: n, Size: 1, Base: fi.Base})
			raw = append(raw, vals[n])
		}
	}
	if len(def.Fields) != 3 {
		return
	}
	if m.slots[local] != nil {
		m.labels["redefinition"]++
	}
	m.s.Recs = append(m.s.Recs, def, fitmodel.Rec{Local: byte(local), Raw: raw})
	dc := def
	m.slots[local] = &dc
	m.live[local] = true
	m.labels["field-description-for-a-live-developer-field"]++
}

// longLived builds an activity stream in which 1-3 local types carry record
// messages defined once at the start, and the remaining local types are
// redefined over and over (unknown messages with up to 254 one-byte fields),
// with data records of the long-lived types in between. It returns the stream
// and the total number of field definitions in it.
func longLived(d gen.D) (*fitmodel.Stream, int) {
	s := &fitmodel.Stream{HeaderSize: 12, Proto: 0x20, Recs: []fitmodel.Rec{
		{IsDef: true, Local: 0, Global: 0, Fields: []fitmodel.FieldDef{{Num: 0, Size: 1, Base: 0}}}, {Local: 0, Raw: []byte{4}},
	}}
	total := 1
	nlong := d.Int(1, 3, "nlong")
	var long []fitmodel.Rec
	used := map[int]bool{0: true}
	for i := 0; i < nlong; i++ {
		l := d.Int(1, 15, "longlocal")
		for used[l] {
			l = l%15 + 1
		}
		used[l] = true
		// heart_rate, cadence (uint8), power (uint16), in a drawn order
		def := fitmodel.Rec{IsDef: true, Local: byte(l), Global: 20, BigEndian: d.Bool("longbe"),
			Fields: [][]fitmodel.FieldDef{
				{{Num: 3, Size: 1, Base: 2}, {Num: 4, Size: 1, Base: 2}, {Num: 7, Size: 2, Base: 0x84}},
				{{Num: 7, Size: 2, Base: 0x84}, {Num: 3, Size: 1, Base: 2}},
				{{Num: 4, Size: 1, Base: 2}, {Num: 7, Size: 2, Base: 0x84}, {Num: 3, Size: 1, Base: 2}},
			}[d.Int(0, 2, "longfields")]}
		s.Recs = append(s.Recs, def)
		total += len(def.Fields)
		long = append(long, def)
	}
	var churn []int
	for l := 1; l < 16; l++ {
		if !used[l] {
			churn = append(churn, l)
		}
	}
	target := []int{4081, 4100, 4500, 8200, 12500, 800}[d.Int(0, 5, "target")]
	nf := []int{254, 254, 100, 17, 5}[d.Int(0, 4, "nf")]
	seq := byte(1)
	emit := func() {
		def := long[d.Int(0, len(long)-1, "whichlong")]
		r := fitmodel.Rec{Local: def.Local}
		for _, fd := range def.Fields {
			for k := 0; k < int(fd.Size); k++ {
				r.Raw = append(r.Raw, seq)
				seq = seq%250 + 1
			}
		}
		s.Recs = append(s.Recs, r)
	}
	emit()
	for n := 0; total < target; n++ {
		def := fitmodel.Rec{IsDef: true, Local: byte(churn[d.Int(0, len(churn)-1, "churnlocal")]), Global: 0xFF20, BigEndian: n%2 == 1}
		for k := 0; k < nf; k++ {
			num := byte(k)
			if k >= 253 {
				num = byte(k + 1) // not 253
			}
			def.Fields = append(def.Fields, fitmodel.FieldDef{Num: num, Size: 1, Base: 2})
		}
		s.Recs = append(s.Recs, def)
		total += nf
		if n%7 == 0 {
			s.Recs = append(s.Recs, fitmodel.Rec{Local: def.Local, Raw: bytes.Repeat([]byte{0x5A}, nf)})
		}
		if every := 1 + 600/nf; n%every == 0 {
			emit()
		}
	}
	for i := 0; i < 3; i++ {
		emit()
	}
	return s, total
}

func chainedUndefined(rec *hx.Recorder) {
	n := int64(0)
	for local := 0; local < 16; local++ {
		for _, compressed := range []bool{false, true} {
			if compressed && local > 3 {
				continue
			}
			first := &fitmodel.Stream{HeaderSize: 12, Proto: 0x20, Recs: []fitmodel.Rec{
				{IsDef: true, Local: 15, Global: 0, Fields: []fitmodel.FieldDef{{Num: 0, Size: 1, Base: 0}}}, {Local: 15, Raw: []byte{4}},
				{IsDef: true, Local: byte(local), Global: 20, Fields: []fitmodel.FieldDef{{Num: 3, Size: 1, Base: 2}}}, {Local: byte(local), Raw: []byte{100}},
			}}
			if local == 15 {
				first.Recs[0].Local, first.Recs[1].Local = 14, 14
			}
			second := &fitmodel.Stream{HeaderSize: 12, Proto: 0x20, Recs: []fitmodel.Rec{
				{IsDef: true, Local: first.Recs[0].Local, Global: 0, Fields: []fitmodel.FieldDef{{Num: 0, Size: 1, Base: 0}}}, {Local: first.Recs[0].Local, Raw: []byte{4}},
				{Local: byte(local), Compressed: compressed, Raw: []byte{101}},
			}}
			chain := append(append([]byte{}, first.Bytes()...), second.Bytes()...)
			n++
			var fs []*fit.File
			var err error
			if p := oracle.Catch(func() { fs, err = fit.DecodeChained(bytes.NewReader(chain)) }); p != nil {
				rec.Fail("chained-undefined", "", fmt.Sprintf("panic: %v", p), streamCase{FileType: 4, Stream: second, Text: second.String()})
				continue
			}
			if err == nil {
				rec.Fail("chained-undefined", "", fmt.Sprintf("DecodeChained accepted a second file whose record uses local type %d, which only the first file of the chain defined (%d files returned)", local, len(fs)),
					streamCase{FileType: 4, Stream: second, Text: first.String() + " || " + second.String()})
			}
		}
	}
	rec.Eval("chained-undefined", n)
	rec.NonTrivialEnum(n)
}

func TestC13(t *testing.T) {
	hx.Main(t, "C13", func(rec *hx.Recorder) {
		if rp, ok := hx.LoadReplay(); ok {
			var c streamCase
			if err := json.Unmarshal(rp.Case, &c); err != nil {
				t.Fatal(err)
			}
			c.Text = c.Stream.String()
			rec.Eval("replay", 1)
			if rp.Sub == "chained-undefined" {
				chainedUndefined(rec)
				return
			}
			if msg, ok := checkStream(rec, c); !ok {
				rec.Fail(rp.Sub, "", msg, c)
			}
			return
		}

		if hx.FirstShard() {
			// exhaustive small part: a data record on each of the 16 never-defined
			// local types (normal header) and 4 (compressed header) must fail
			n := int64(0)
			for local := 0; local < 16; local++ {
				for _, compressed := range []bool{false, true} {
					if compressed && local > 3 {
						continue
					}
					s := &fitmodel.Stream{HeaderSize: 12, Proto: 0x20, Recs: []fitmodel.Rec{
						{IsDef: true, Local: byte((local + 1) % 16), Global: 0, Fields: []fitmodel.FieldDef{{Num: 0, Size: 1, Base: 0}}},
						{Local: byte((local + 1) % 16), Raw: []byte{4}},
						{Local: byte(local), Compressed: compressed},
					}}
					c := streamCase{FileType: 4, Stream: s, Text: s.String()}
					n++
					if msg, ok := checkStream(rec, c); !ok {
						rec.Fail("undefined", "", msg, c)
					}
				}
			}
			// the first data record of a file is no exception: whatever local
			// type the file_id definition used, a first data record on any
			// other local type has no definition (all 16 x 15 pairs, and the
			// compressed forms)
			for a := 0; a < 16; a++ {
				for b := 0; b < 16; b++ {
					if a == b {
						continue
					}
					for _, compressed := range []bool{false, true} {
						if compressed && (b > 3 || a&3 == b) {
							continue
						}
						s := &fitmodel.Stream{HeaderSize: 12, Proto: 0x20, Recs: []fitmodel.Rec{
							{IsDef: true, Local: byte(a), Global: 0, Fields: []fitmodel.FieldDef{{Num: 0, Size: 1, Base: 0}}},
							{Local: byte(b), Compressed: compressed, Raw: []byte{4}},
							{Local: byte(a), Raw: []byte{4}},
						}}
						c := streamCase{FileType: 4, Stream: s, Text: s.String()}
						n++
						if msg, ok := checkStream(rec, c); !ok {
							rec.Fail("undefined", "", msg, c)
						}
					}
				}
			}
			rec.Eval("undefined", n)
			rec.NonTrivialEnum(n)

		}

		// a chain: definitions of one file must not serve the next one
		if hx.FirstShard() {
			chainedUndefined(rec)
		}

		// long-lived definitions: one local type is defined once and used
		// throughout while the other local types are redefined hundreds of
		// times, with thousands of field definitions in total (whatever the
		// decoder keeps per definition must stay intact however much is
		// defined afterwards)
		longCases, longFailed := 0, false
		hx.RapidCheck(t, rec, "long-lived", func(rt *rapid.T, fail func(string, string, any)) {
			if longCases >= hx.Pick(30, 400) && !longFailed {
				return
			}
			longCases++
			d := gen.D{T: rt}
			s, total := longLived(d)
			c := streamCase{FileType: 4, Stream: s, Text: ""}
			rec.Eval("long-lived", 1)
			rec.Class("long-lived: field definitions per stream (hundreds)", int64(total/100))
			if total > 4096 {
				rec.Class("long-lived: more than 4096 field definitions in one file", 1)
				rec.NonTrivial(hx.FPBytes(s.Bytes()))
			}
			if msg, ok := checkStream(rec, c); !ok {
				longFailed = true
				c.Text = fmt.Sprintf("(%d records, %d field definitions in total)", len(s.Recs), total)
				fail("", msg, c)
			}
		})

		// tens of thousands of definitions in one file (whatever the decoder
		// counts or indexes definitions with must not wrap)
		if hx.FirstShard() {
			for _, ndef := range []int{65534, 65540, 70001} {
				s := &fitmodel.Stream{HeaderSize: 12, Proto: 0x20, Recs: []fitmodel.Rec{
					{IsDef: true, Local: 0, Global: 0, Fields: []fitmodel.FieldDef{{Num: 0, Size: 1, Base: 0}}}, {Local: 0, Raw: []byte{4}},
					{IsDef: true, Local: 1, Global: 20, Fields: []fitmodel.FieldDef{{Num: 4, Size: 1, Base: 2}}},
				}}
				for i := 3; i < ndef; i++ {
					l := byte(2 + i%14)
					fnum := []byte{3, 4, 13}[i%3] // heart_rate, cadence, temperature
					base := byte(2)
					if fnum == 13 {
						base = 1
					}
					s.Recs = append(s.Recs, fitmodel.Rec{IsDef: true, Local: l, BigEndian: i%2 == 1, Global: 20, Fields: []fitmodel.FieldDef{{Num: fnum, Size: 1, Base: base}}})
					if i%16 == 0 || i > ndef-40 {
						s.Recs = append(s.Recs, fitmodel.Rec{Local: l, Raw: []byte{byte(1 + i%100)}}, fitmodel.Rec{Local: 1, Raw: []byte{byte(1 + i%90)}})
					}
				}
				c := streamCase{FileType: 4, Stream: s, Text: fmt.Sprintf("(%d definitions over 15 local types, records in between)", ndef)}
				rec.Eval("many-definitions", 1)
				rec.NonTrivialEnum(1)
				if msg, ok := checkStream(rec, c); !ok {
					rec.Fail("many-definitions", "", msg, c)
				}
			}
		}

		// a field moves between the regular and the developer part of a
		// definition: for every known message, its first two scalar fields
		// defined, then the second one turned into a developer field with
		// the same three bytes, then back - a record after each definition
		if hx.FirstShard() {
			nm := int64(0)
			for _, g := range prof.MsgNums() {
				if g == 0 {
					continue
				}
				mi := prof.Table().Msgs[g]
				var fds []fitmodel.FieldDef
				for _, n := range prof.FieldNums(g) {
					fi := mi.Fields[n]
					bt := fitmodel.MustBase(fi.Base)
					if fi.Array || bt.String || n == 253 {
						continue
					}
					fds = append(fds, fitmodel.FieldDef{Num: n, Size: byte(bt.Size), Base: fi.Base})
					if len(fds) == 2 {
						break
					}
				}
				if len(fds) < 2 {
					continue
				}
				raw := func(fd ...fitmodel.FieldDef) []byte {
					var out []byte
					for _, f := range fd {
						for k := 0; k < int(f.Size); k++ {
							out = append(out, byte(0x11+k))
						}
					}
					return out
				}
				for _, be := range []bool{false, true} {
					full := fitmodel.Rec{IsDef: true, Local: 1, Global: g, BigEndian: be, Fields: fds}
					split := fitmodel.Rec{IsDef: true, Local: 1, Global: g, BigEndian: be, Fields: fds[:1], HasDev: true, Dev: []fitmodel.DevFieldDef{{Num: fds[1].Num, Size: fds[1].Size, Idx: fds[1].Base}}}
					st := &fitmodel.Stream{HeaderSize: 12, Proto: 0x20, Recs: []fitmodel.Rec{
						{IsDef: true, Local: 0, Global: 0, Fields: []fitmodel.FieldDef{{Num: 0, Size: 1, Base: 0}}}, {Local: 0, Raw: []byte{4}},
						full, {Local: 1, Raw: raw(fds...)},
						split, {Local: 1, Raw: raw(fds...)},
						full, {Local: 1, Raw: raw(fds...)},
						split, {Local: 1, Raw: raw(fds...)},
					}}
					c := streamCase{FileType: 4, Stream: st, Text: st.String()}
					nm++
					if msg, ok := checkStream(rec, c); !ok {
						rec.Fail("moved-field", "", msg, c)
					}
					// a definition with a developer field, then - on another
					// local type - a definition whose first regular field has
					// the developer field's three bytes and whose other
					// fields are the first definition's: the two differ only
					// in where the counted parts begin
					u := byte(0)
					for n := 240; n > 0; n-- {
						if mi.Fields[byte(n)] == nil && n != 253 {
							u = byte(n)
							break
						}
					}
					devTriple := fitmodel.DevFieldDef{Num: u, Size: fds[0].Size, Idx: fds[0].Base}
					asRegular := fitmodel.FieldDef{Num: u, Size: fds[0].Size, Base: fds[0].Base}
					d1 := fitmodel.Rec{IsDef: true, Local: 1, Global: g, BigEndian: be, Fields: fds, HasDev: true, Dev: []fitmodel.DevFieldDef{devTriple}}
					d2 := fitmodel.Rec{IsDef: true, Local: 2, Global: g, BigEndian: be, Fields: append([]fitmodel.FieldDef{asRegular}, fds[1:]...)}
					d3 := fitmodel.Rec{IsDef: true, Local: 3, Global: g, BigEndian: !be, Fields: append(append([]fitmodel.FieldDef{}, fds[1:]...), asRegular)}
					st2 := &fitmodel.Stream{HeaderSize: 12, Proto: 0x20, Recs: []fitmodel.Rec{
						{IsDef: true, Local: 0, Global: 0, Fields: []fitmodel.FieldDef{{Num: 0, Size: 1, Base: 0}}}, {Local: 0, Raw: []byte{4}},
						d1, {Local: 1, Raw: raw(append(append([]fitmodel.FieldDef{}, fds...), asRegular)...)},
						d2, {Local: 2, Raw: raw(d2.Fields...)},
						d3, {Local: 3, Raw: raw(d3.Fields...)},
						{Local: 1, Raw: raw(append(append([]fitmodel.FieldDef{}, fds...), asRegular)...)}, {Local: 2, Raw: raw(d2.Fields...)},
					}}
					c2 := streamCase{FileType: 4, Stream: st2, Text: st2.String()}
					nm++
					if msg, ok := checkStream(rec, c2); !ok {
						rec.Fail("moved-field", "", msg, c2)
					}
				}
			}
			rec.Eval("moved-field", nm)
			rec.NonTrivialEnum(nm)
		}

		// count sums: definitions whose regular and developer field counts
		// add up to 255, 256 and 257 in several splits (whatever is computed
		// from the two counts together must not wrap), a record under each,
		// then records of another local type
		if hx.FirstShard() {
			ncs := int64(0)
			for _, split := range [][2]int{{1, 254}, {1, 255}, {2, 255}, {56, 200}, {57, 200}, {128, 127}, {128, 128}, {129, 128}, {254, 1}, {255, 1}, {255, 2}, {255, 255}, {200, 56}} {
				for _, g := range []uint16{0xFF30, 20} {
					def := fitmodel.Rec{IsDef: true, Local: 2, Global: g, HasDev: true}
					mi := prof.Table().Msgs[g]
					for n := 0; len(def.Fields) < split[0]; n++ {
						num := byte(n)
						if num == 253 || (mi != nil && mi.Fields[num] != nil) {
							// known fields of the record message would need their own types: unknown numbers only
							if g == 20 {
								continue
							}
						}
						if n > 255 {
							break
						}
						def.Fields = append(def.Fields, fitmodel.FieldDef{Num: num, Size: 1, Base: 0x02})
					}
					if len(def.Fields) != split[0] {
						continue // not enough unknown field numbers for this message
					}
					for k := 0; k < split[1]; k++ {
						def.Dev = append(def.Dev, fitmodel.DevFieldDef{Num: byte(k), Size: 1, Idx: byte(k % 3)})
					}
					raw := make([]byte, split[0]+split[1])
					for i := range raw {
						raw[i] = byte(1 + i%200)
					}
					st := &fitmodel.Stream{HeaderSize: 12, Proto: 0x20, Recs: []fitmodel.Rec{
						{IsDef: true, Local: 0, Global: 0, Fields: []fitmodel.FieldDef{{Num: 0, Size: 1, Base: 0}}}, {Local: 0, Raw: []byte{4}},
						{IsDef: true, Local: 1, Global: 20, Fields: []fitmodel.FieldDef{{Num: 3, Size: 1, Base: 2}}}, {Local: 1, Raw: []byte{100}},
						def, {Local: 2, Raw: raw}, {Local: 1, Raw: []byte{101}}, {Local: 2, Raw: raw}, {Local: 1, Raw: []byte{102}},
					}}
					c := streamCase{FileType: 4, Stream: st, Text: fmt.Sprintf("(count-sums) message %d defined with %d regular and %d developer fields", g, split[0], split[1])}
					ncs++
					if msg, ok := checkStream(rec, c); !ok {
						c.Text = st.String()
						rec.Fail("count-sums", "", fmt.Sprintf("a definition with %d regular and %d developer fields: %s", split[0], split[1], msg), c)
					}
				}
			}
			rec.Eval("count-sums", ncs)
			rec.NonTrivialEnum(ncs)
		}

		// redefinitions whose definition bytes collide with the replaced
		// definition's under common checksums (gen.CollidingDefs)
		if hx.FirstShard() {
			nc := int64(0)
			for _, p := range gen.CollidingDefs(20, fitmodel.FieldDef{Num: 3, Size: 1, Base: 0x02}, 3) {
				for _, be := range []bool{false, true} {
					st := gen.CollisionStream(p, be)
					c := streamCase{FileType: 4, Stream: st, Text: st.String()}
					nc++
					if msg, ok := checkStream(rec, c); !ok {
						rec.Fail("colliding-definitions", "", "a local type redefined with a field list whose definition bytes have the same "+p.Hash+" as the list it replaces: "+msg, c)
						break
					}
				}
			}
			rec.Eval("colliding-definitions", nc)
			rec.NonTrivialEnum(nc)
		}

		hx.RapidCheck(t, rec, "machine", func(rt *rapid.T, fail func(string, string, any)) {
			d := gen.D{T: rt}
			ft := prof.FileTypes[d.Int(0, len(prof.FileTypes)-1, "ft")]
			m := &machine{d: d, ft: ft, labels: map[string]int{}, live: map[int]bool{}}
			m.o = gen.DefaultStreamOpts()
			for _, g := range prof.HostedMsgs(ft) {
				if g != 0 {
					m.hosted = append(m.hosted, g)
				}
			}
			fidLocal := d.Int(0, 15, "fidl")
			m.s = &fitmodel.Stream{HeaderSize: 12, Proto: 0x20, Recs: []fitmodel.Rec{
				{IsDef: true, Local: byte(fidLocal), Global: 0, Fields: []fitmodel.FieldDef{{Num: 0, Size: 1, Base: 0}}},
				{Local: byte(fidLocal), Raw: []byte{byte(ft)}},
			}}
			m.slots[fidLocal] = &m.s.Recs[0]
			verify := func(rt *rapid.T) {
				c := streamCase{FileType: int(ft), Stream: m.s, Text: m.s.String()}
				rec.Eval("machine", 1)
				if msg, ok := checkStream(rec, c); !ok {
					fail("", msg, c)
				}
			}
			rt.Repeat(map[string]func(*rapid.T){
				"define": func(rt *rapid.T) {
					if m.finished {
						return // the history ended with an undefined-slot record
					}
					local := d.Int(0, 15, "local")
					if local == fidLocal {
						// keep the file_id definition alive unless replaced by a hosted message
						m.labels["file-id-slot-redefined"]++
					}
					m.define(local)
				},
				"redefineVariant": func(rt *rapid.T) {
					// re-emit an existing definition with exactly one aspect
					// changed: byte order only, or one field dropped, or the
					// field list reversed
					if m.finished {
						return
					}
					var defined []int
					for l := 0; l < 16; l++ {
						if m.slots[l] != nil && !(l == fidLocal && m.slots[l].Global == 0) {
							defined = append(defined, l)
						}
					}
					if len(defined) == 0 {
						// nothing to vary yet: define something instead (an
						// action never skips: rapid gives up on a history
						// after too many skipped draws in a row)
						m.define(d.Int(0, 15, "local"))
						return
					}
					l := defined[d.Int(0, len(defined)-1, "which")]
					def := *m.slots[l]
					def.Fields = append([]fitmodel.FieldDef(nil), def.Fields...)
					def.Dev = append([]fitmodel.DevFieldDef(nil), def.Dev...)
					moved := false
					switch d.Int(0, 5, "variant") {
					case 4:
						// the last regular field becomes a developer field
						// with the same three bytes (number, size, base type
						// byte as developer index): the definition's bytes
						// differ from the old one's only in the two counts
						if n := len(def.Fields); n > 1 {
							fd := def.Fields[n-1]
							def.Fields = def.Fields[:n-1]
							def.HasDev = true
							def.Dev = append([]fitmodel.DevFieldDef{{Num: fd.Num, Size: fd.Size, Idx: fd.Base}}, def.Dev...)
							m.labels["redefinition-field-moved-between-regular-and-developer"]++
							moved = true
						}
					case 5:
						// the reverse: the first developer field becomes the
						// last regular field (when its index byte is a base
						// type its size fits)
						if len(def.Dev) > 0 {
							dv := def.Dev[0]
							fits := true
							if mi := prof.Table().Msgs[def.Global]; mi != nil && mi.Fields[dv.Num] != nil {
								// a profile field: only with the base type
								// and scalar size the profile gives it
								fi := mi.Fields[dv.Num]
								fits = fi.Base == dv.Idx && !fi.Array && !fitmodel.MustBase(fi.Base).String && int(dv.Size) == fitmodel.MustBase(fi.Base).Size
							}
							if bt, ok := fitmodel.Base(dv.Idx); ok && fits && bt.Size > 0 && dv.Size > 0 && int(dv.Size)%bt.Size == 0 && !hasField(def.Fields, dv.Num) {
								def.Dev = def.Dev[1:]
								def.Fields = append(def.Fields, fitmodel.FieldDef{Num: dv.Num, Size: dv.Size, Base: dv.Idx})
								m.labels["redefinition-field-moved-between-regular-and-developer"]++
								moved = true
							}
						}
					case 0, 1:
						def.BigEndian = !def.BigEndian
						m.labels["redefinition-byte-order-only"]++
						m.labels["redefinition-other-byte-order"]++
					case 2:
						if len(def.Fields) > 1 {
							def.Fields = def.Fields[:len(def.Fields)-1]
						}
					default:
						for i, j := 0, len(def.Fields)-1; i < j; i, j = i+1, j-1 {
							def.Fields[i], def.Fields[j] = def.Fields[j], def.Fields[i]
						}
					}
					m.labels["redefinition"]++
					m.s.Recs = append(m.s.Recs, def)
					dc := def
					m.slots[l] = &dc
					if moved {
						m.data(l, false)
					}
				},
				"data": func(rt *rapid.T) {
					if m.finished {
						return
					}
					var defined []int
					for l := 0; l < 16; l++ {
						if m.slots[l] != nil && !(l == fidLocal && m.slots[l].Global == 0) {
							defined = append(defined, l)
						}
					}
					if len(defined) == 0 {
						m.define(d.Int(0, 15, "local"))
						return
					}
					m.data(defined[d.Int(0, len(defined)-1, "which")], false)
				},
				"compressedData": func(rt *rapid.T) {
					if m.finished {
						return
					}
					var defined []int
					for l := 0; l < 4; l++ {
						if m.slots[l] != nil && !(l == fidLocal && m.slots[l].Global == 0) {
							defined = append(defined, l)
						}
					}
					if len(defined) == 0 {
						m.define(d.Int(0, 3, "local03"))
						return
					}
					m.data(defined[d.Int(0, len(defined)-1, "which")], true)
				},
				"fieldDescription": func(rt *rapid.T) {
					if m.finished {
						return
					}
					for l := 0; l < 16; l++ {
						if m.slots[l] != nil && len(m.slots[l].Dev) > 0 && l != fidLocal {
							m.fieldDescription(l, m.slots[l].Dev[d.Int(0, len(m.slots[l].Dev)-1, "whichdev")])
							return
						}
					}
					m.define(d.Int(0, 15, "local"))
				},
				"dataUndefined": func(rt *rapid.T) {
					if m.finished || len(m.s.Recs) < 6 || d.Int(0, 24, "undef") != 17 {
						return
					}
					var free []int
					for l := 0; l < 16; l++ {
						if m.slots[l] == nil {
							free = append(free, l)
						}
					}
					if len(free) == 0 {
						return
					}
					l := free[d.Int(0, len(free)-1, "free")]
					m.s.Recs = append(m.s.Recs, fitmodel.Rec{Local: byte(l), Compressed: l < 4 && d.Bool("c")})
					m.finished = true
					m.labels["ends-with-undefined-slot-record"]++
				},
				"": verify,
			})
			for k := range m.labels {
				rec.Class(k, 1)
			}
			if len(m.live) >= 3 && (m.labels["redefinition-other-message"] > 0 || m.labels["redefinition-other-byte-order"] > 0) && m.labels["compressed-on-slot-1-3"] > 0 {
				rec.NonTrivial(hx.FP(m.s.String()))
				rec.Class("non-trivial", 1)
			}
			if rec.WantSample() && len(m.s.Recs) < 14 && m.labels["redefinition"] > 0 {
				rec.Sample(m.s.String())
			}

			// metamorphic: inserting a (re)definition of a local type that no
			// later record uses, anywhere, does not change the decoded messages
			if !m.finished && len(m.s.Recs) > 3 {
				pos := d.Int(2, len(m.s.Recs)-1, "inspos")
				used := map[byte]bool{}
				for _, r := range m.s.Recs[pos:] {
					if !r.IsDef {
						l := r.Local & 0x0F
						if r.Compressed {
							l = r.Local & 3
						}
						used[l] = true
					}
				}
				var cand []int
				for l := 0; l < 16; l++ {
					if !used[byte(l)] {
						cand = append(cand, l)
					}
				}
				if len(cand) > 0 {
					l := cand[d.Int(0, len(cand)-1, "insl")]
					// later definitions of l in the original stream keep working: they come after pos
					ins := fitmodel.Rec{IsDef: true, Local: byte(l), Global: m.hosted[d.Int(0, len(m.hosted)-1, "insg")], BigEndian: d.Bool("insbe"),
						Fields: []fitmodel.FieldDef{{Num: 250, Size: 2, Base: 0x84}}}
					s2 := *m.s
					s2.Recs = append(append(append([]fitmodel.Rec{}, m.s.Recs[:pos]...), ins), m.s.Recs[pos:]...)
					// if a later record redefines l before using it, nothing changes; if l had a
					// definition that a later *definition-less* use relied on, it is in `used`.
					f1, e1 := fit.Decode(bytes.NewReader(m.s.Bytes()))
					f2, e2 := fit.Decode(bytes.NewReader(s2.Bytes()))
					o := prof.DigestOpts{NoHeader: true, Skip: func(msg, field string) bool {
						return hx.Open("K1") && msg == "RecordMsg" && field == "Distance"
					}}
					rec.Eval("slot-independence", 1)
					if (e1 == nil) != (e2 == nil) || prof.Digest(f1, o) != prof.Digest(f2, o) {
						fail("", fmt.Sprintf("defining local type %d (unused afterwards) at record %d changed how other local types decode: err %v vs %v\nbefore: %s\nafter:  %s", l, pos, e1, e2, m.s.String(), s2.String()),
							streamCase{FileType: int(ft), Stream: &s2, Text: s2.String()})
					}
				}
			}
		})
	})
}
