//go:build verif

package prof

import (
	"fmt"
	"strings"

	"github.com/tormoder/fit"

	"verif/fitmodel"
)

// DigestOpts selects what Digest leaves out.
type DigestOpts struct {
	NoHeader  bool                                // leave out Header and CRC
	NoUnknown bool                                // leave out the unknown lists
	Skip      func(msg string, field string) bool // leave out single fields
}

// Digest is a canonical dump of everything observable in f through its public
// surface: header, CRC, file-level messages, unknown lists, and the container
// of the file's type.
func Digest(f *fit.File, o DigestOpts) string {
	if f == nil {
		return "<nil file>"
	}
	var sb strings.Builder
	if !o.NoHeader {
		h := f.Header
		fmt.Fprintf(&sb, "hdr{%d %d %d %d %q %d} crc=%d\n", h.Size, h.ProtocolVersion, h.ProfileVersion, h.DataSize, string(h.DataType[:]), h.CRC, f.CRC)
	}
	fmt.Fprintf(&sb, "type=%d\n", f.Type())
	dumpSlot := func(s Slot) {
		msgs := SlotMsgs(f, s)
		fmt.Fprintf(&sb, "%s[%d]\n", s.Name, len(msgs))
		for _, m := range msgs {
			if !m.IsValid() {
				sb.WriteString(" <nil>\n")
				continue
			}
			sb.WriteString(" {")
			mt := m.Type()
			for i := 0; i < m.NumField(); i++ {
				if o.Skip != nil && o.Skip(mt.Name(), mt.Field(i).Name) {
					continue
				}
				sb.WriteString(mt.Field(i).Name)
				sb.WriteByte('=')
				sb.WriteString(FromReflect(m.Field(i)).String())
				sb.WriteByte(' ')
			}
			sb.WriteString("}\n")
		}
	}
	for _, s := range FileSlots() {
		dumpSlot(s)
	}
	if !o.NoUnknown {
		fmt.Fprintf(&sb, "unknownMsgs(nil=%v)=%v\n", f.UnknownMessages == nil, f.UnknownMessages)
		fmt.Fprintf(&sb, "unknownFields(nil=%v)=%v\n", f.UnknownFields == nil, f.UnknownFields)
	}
	if c, err := Container(f); err == nil && c != nil {
		for _, s := range Slots(f.Type()) {
			dumpSlot(s)
		}
	} else if err != nil {
		fmt.Fprintf(&sb, "container error: %v\n", err)
	}
	return sb.String()
}

// CountMsgs returns per-slot message counts ("Records"->n ...).
func CountMsgs(f *fit.File) map[string]int {
	out := map[string]int{}
	for _, s := range FileSlots() {
		out["File."+s.Name] = len(SlotMsgs(f, s))
	}
	if c, err := Container(f); err == nil && c != nil {
		for _, s := range Slots(f.Type()) {
			out[s.Name] = len(SlotMsgs(f, s))
		}
	}
	return out
}

var _ = fitmodel.Nil
