//go:build verif

// Package prof adapts the repository's profile (through the read-only verif
// hook) and its public Go data model (through reflection) to the neutral
// forms used by fitmodel.
package prof

import (
	"fmt"
	"reflect"
	"sort"
	"strings"
	"sync"
	"time"
	_ "time/tzdata" // tz-database Locations without relying on the host

	"github.com/tormoder/fit"

	"verif/fitmodel"
)

var (
	once  sync.Once
	table *fitmodel.Table
)

// Table returns the profile table built from the hook export. Which struct
// field a wire field lands in is the repository's decision; everything else
// about a field's meaning comes from fitmodel.
func Table() *fitmodel.Table {
	once.Do(func() {
		t := &fitmodel.Table{Msgs: map[uint16]*fitmodel.MsgInfo{}}
		known, _ := fit.VerifKnownMesgNums()
		for _, m := range known {
			typ := fit.VerifMesgType(m)
			if typ == nil {
				continue
			}
			mi := &fitmodel.MsgInfo{
				Num:     uint16(m),
				Name:    typ.Name(),
				NFields: typ.NumField(),
				Fields:  map[byte]*fitmodel.FieldInfo{},
				BySIdx:  make([]*fitmodel.FieldInfo, typ.NumField()),
			}
			t.Msgs[uint16(m)] = mi
		}
		for _, f := range fit.VerifFields() {
			mi := t.Msgs[uint16(f.Mesg)]
			if mi == nil {
				continue
			}
			fi := &fitmodel.FieldInfo{
				Num:    f.Num,
				SIndex: f.SIndex,
				Kind:   int(f.Kind),
				Base:   f.Base,
				Array:  f.Array,
				Length: int(f.Length),
			}
			if f.SIndex >= 0 && f.SIndex < mi.NFields {
				fi.Name = fit.VerifMesgType(f.Mesg).Field(f.SIndex).Name
				mi.BySIdx[f.SIndex] = fi
			}
			mi.Fields[f.Num] = fi
		}
		table = t
	})
	return table
}

// MsgNums returns the known message numbers in ascending order.
func MsgNums() []uint16 {
	var out []uint16
	for n := range Table().Msgs {
		out = append(out, n)
	}
	sort.Slice(out, func(i, j int) bool { return out[i] < out[j] })
	return out
}

// FieldNums returns the field numbers of message m in ascending order.
func FieldNums(m uint16) []byte {
	mi := Table().Msgs[m]
	if mi == nil {
		return nil
	}
	var out []byte
	for n := range mi.Fields {
		out = append(out, n)
	}
	sort.Slice(out, func(i, j int) bool { return out[i] < out[j] })
	return out
}

// MsgType returns the Go struct type of message m.
func MsgType(m uint16) reflect.Type { return fit.VerifMesgType(fit.MesgNum(m)) }

// MsgNumOfType returns the message number whose Go type has this name.
func MsgNumOfType(name string) (uint16, bool) {
	for n, mi := range Table().Msgs {
		if mi.Name == name {
			return n, true
		}
	}
	return 0, false
}

var (
	timeType = reflect.TypeOf(time.Time{})
	latType  = reflect.TypeOf(fit.Latitude{})
	lngType  = reflect.TypeOf(fit.Longitude{})
)

var (
	locMu sync.Mutex
	locs  = map[string]*time.Location{}
)

// Location returns the named tz-database Location (from the time zone data
// embedded through time/tzdata), nil if it does not exist.
func Location(name string) *time.Location {
	locMu.Lock()
	defer locMu.Unlock()
	if l, ok := locs[name]; ok {
		return l
	}
	l, err := time.LoadLocation(name)
	if err != nil {
		l = nil
	}
	locs[name] = l
	return l
}

// FromReflect converts a message field value into the neutral form.
func FromReflect(v reflect.Value) fitmodel.Val {
	switch v.Type() {
	case timeType:
		t := v.Interface().(time.Time)
		_, off := t.Zone()
		val := fitmodel.T(t.Unix(), off)
		if t.Nanosecond() != 0 {
			val.S = fmt.Sprint(t.Nanosecond())
		}
		return val
	case latType:
		return fitmodel.C(v.Interface().(fit.Latitude).Semicircles())
	case lngType:
		return fitmodel.C(v.Interface().(fit.Longitude).Semicircles())
	}
	switch v.Kind() {
	case reflect.Uint8, reflect.Uint16, reflect.Uint32, reflect.Uint64, reflect.Uint:
		return fitmodel.U(v.Uint())
	case reflect.Int8, reflect.Int16, reflect.Int32, reflect.Int64, reflect.Int:
		return fitmodel.I(v.Int())
	case reflect.Float32, reflect.Float64:
		return fitmodel.F(v.Float())
	case reflect.String:
		return fitmodel.S(v.String())
	case reflect.Slice:
		if v.Len() == 0 {
			return fitmodel.Nil()
		}
		elems := make([]fitmodel.Val, v.Len())
		for i := range elems {
			elems[i] = FromReflect(v.Index(i))
		}
		return fitmodel.Arr(elems)
	case reflect.Bool:
		if v.Bool() {
			return fitmodel.U(1)
		}
		return fitmodel.U(0)
	}
	return fitmodel.Val{K: '?', S: v.Type().String()}
}

// SetReflect stores a neutral value into a message field.
func SetReflect(dst reflect.Value, v fitmodel.Val) {
	switch dst.Type() {
	case timeType:
		t := time.Unix(v.I, 0).UTC()
		switch {
		case strings.HasPrefix(v.S, "tz:"):
			// a tz-database Location: its offset depends on the instant
			if loc := Location(v.S[3:]); loc != nil {
				t = t.In(loc)
			} else {
				t = t.In(time.FixedZone("VERIF", v.Off))
			}
		case v.Off != 0 || v.S == "local":
			t = t.In(time.FixedZone("VERIF", v.Off))
		}
		dst.Set(reflect.ValueOf(t))
		return
	case latType:
		dst.Set(reflect.ValueOf(fit.NewLatitude(int32(v.I))))
		return
	case lngType:
		dst.Set(reflect.ValueOf(fit.NewLongitude(int32(v.I))))
		return
	}
	switch dst.Kind() {
	case reflect.Uint8, reflect.Uint16, reflect.Uint32, reflect.Uint64:
		dst.SetUint(v.U)
	case reflect.Int8, reflect.Int16, reflect.Int32, reflect.Int64:
		dst.SetInt(v.I)
	case reflect.Float32, reflect.Float64:
		dst.SetFloat(v.F)
	case reflect.String:
		dst.SetString(v.S)
	case reflect.Slice:
		if v.K == 'n' {
			dst.Set(reflect.Zero(dst.Type()))
			return
		}
		// the slice gets spare capacity filled with a recognisable pattern:
		// memory the File's owner may be using for something else (a window
		// of a larger buffer). SpareIntact checks that it was left alone.
		n := len(v.Elems)
		s := reflect.MakeSlice(dst.Type(), n+spareCap, n+spareCap)
		for i, e := range v.Elems {
			SetReflect(s.Index(i), e)
		}
		for i := n; i < n+spareCap; i++ {
			setSpare(s.Index(i))
		}
		dst.Set(s.Slice3(0, n, n+spareCap))
	default:
		panic("prof.SetReflect: unsupported kind " + dst.Kind().String())
	}
}

const spareCap = 3

func setSpare(e reflect.Value) {
	switch e.Kind() {
	case reflect.Uint8, reflect.Uint16, reflect.Uint32, reflect.Uint64:
		e.SetUint(0xA5A5A5A5A5A5A5A5 & (1<<uint(e.Type().Bits()) - 1))
	case reflect.Int8, reflect.Int16, reflect.Int32, reflect.Int64:
		e.SetInt(0x2A)
	case reflect.Float32, reflect.Float64:
		e.SetFloat(1234.5)
	case reflect.String:
		e.SetString("spare")
	}
}

func isSpare(e reflect.Value) bool {
	switch e.Kind() {
	case reflect.Uint8, reflect.Uint16, reflect.Uint32, reflect.Uint64:
		return e.Uint() == 0xA5A5A5A5A5A5A5A5&(1<<uint(e.Type().Bits())-1)
	case reflect.Int8, reflect.Int16, reflect.Int32, reflect.Int64:
		return e.Int() == 0x2A
	case reflect.Float32, reflect.Float64:
		return e.Float() == 1234.5
	case reflect.String:
		return e.String() == "spare"
	}
	return true
}

// SpareIntact checks, for every slice field of every message of a File built
// with SetReflect, that the elements between length and capacity still hold
// the pattern they were given. It returns "" or a description of the first
// field whose spare capacity was written to.
func SpareIntact(f *fit.File) string {
	check := func(msg reflect.Value) string {
		msg = reflect.Indirect(msg)
		if !msg.IsValid() {
			return ""
		}
		for i := 0; i < msg.NumField(); i++ {
			fv := msg.Field(i)
			if fv.Kind() != reflect.Slice || fv.IsNil() || fv.Cap() == fv.Len() {
				continue
			}
			full := fv.Slice3(0, fv.Cap(), fv.Cap())
			for j := fv.Len(); j < fv.Cap(); j++ {
				if !isSpare(full.Index(j)) {
					return fmt.Sprintf("%s.%s has %d elements; element %d, beyond its length (spare capacity), was overwritten with %v", msg.Type().Name(), msg.Type().Field(i).Name, fv.Len(), j, full.Index(j).Interface())
				}
			}
		}
		return ""
	}
	for _, s := range append(FileSlots(), Slots(f.Type())...) {
		for _, m := range SlotMsgs(f, s) {
			if msg := check(m); msg != "" {
				return msg
			}
		}
	}
	return ""
}

// AliasArrays rebuilds the array fields of f (slices of non-string elements)
// as consecutive, overlapping views of one buffer per element type, in the
// order Encode visits them: slice i has its own length, and its capacity runs
// on through the slices that follow (what a program gets that cuts its
// sample buffer into per-message pieces with buf[a:b]). The values of the
// File do not change. It returns how many slices share a buffer with a
// neighbour.
func AliasArrays(f *fit.File) int {
	groups := map[reflect.Type][]reflect.Value{}
	var order []reflect.Type
	for _, s := range append(FileSlots(), Slots(f.Type())...) {
		for _, m := range SlotMsgs(f, s) {
			m = reflect.Indirect(m)
			if !m.IsValid() {
				continue
			}
			for i := 0; i < m.NumField(); i++ {
				fv := m.Field(i)
				if fv.Kind() != reflect.Slice || fv.IsNil() || fv.Len() == 0 || !fv.CanSet() || fv.Type().Elem().Kind() == reflect.String {
					continue
				}
				if _, ok := groups[fv.Type()]; !ok {
					order = append(order, fv.Type())
				}
				groups[fv.Type()] = append(groups[fv.Type()], fv)
			}
		}
	}
	n := 0
	for _, t := range order {
		g := groups[t]
		if len(g) < 2 {
			continue
		}
		total := 0
		for _, fv := range g {
			total += fv.Len()
		}
		buf := reflect.MakeSlice(t, total, total)
		off := 0
		for _, fv := range g {
			reflect.Copy(buf.Slice(off, off+fv.Len()), fv)
			off += fv.Len()
		}
		off = 0
		for _, fv := range g {
			l := fv.Len()
			fv.Set(buf.Slice(off, off+l)) // capacity runs to the end of buf
			off += l
			n++
		}
	}
	return n
}

// TweakTimes changes how the time values of f are held without changing what
// they mean on the wire: with subSecond every valid time gets a fractional
// part (1 ns, 0.5 s, 0.75 s, 0.999999999 s in turn; FIT stores whole seconds,
// the fraction is cut off); with zonedUTC every valid date_time (UTC-kind)
// field is shown in a zone other than UTC (same instant). It returns how many
// values it changed.
func TweakTimes(f *fit.File, subSecond, zonedUTC bool, sameTime ...bool) int {
	if len(sameTime) > 0 && sameTime[0] {
		SameTimes(f)
	}
	tab := Table()
	fracs := []time.Duration{1, 500 * time.Millisecond, 750 * time.Millisecond, 999999999}
	zones := []*time.Location{time.FixedZone("", 19800), Location("America/New_York"), time.FixedZone("W", -12600), Location("Australia/Lord_Howe")}
	n := 0
	for _, s := range append(FileSlots(), Slots(f.Type())...) {
		for _, m := range SlotMsgs(f, s) {
			m = reflect.Indirect(m)
			if !m.IsValid() {
				continue
			}
			num, _ := MsgNumOfType(m.Type().Name())
			mi := tab.Msgs[num]
			for i := 0; i < m.NumField(); i++ {
				fv := m.Field(i)
				t, ok := fv.Interface().(time.Time)
				if !ok || !fv.CanSet() || fit.IsBaseTime(t) {
					continue
				}
				kind := 0
				if mi != nil && i < len(mi.BySIdx) && mi.BySIdx[i] != nil {
					kind = mi.BySIdx[i].Kind
				}
				changed := false
				if subSecond {
					t = t.Add(fracs[(n+i)%len(fracs)])
					changed = true
				}
				if zonedUTC && kind == fitmodel.KindTimeUTC {
					if z := zones[(n+i)%len(zones)]; z != nil {
						t = t.In(z)
						changed = true
					}
				}
				if changed {
					fv.Set(reflect.ValueOf(t))
					n++
				}
			}
		}
	}
	return n
}

// EditInPlace sets, in every slice slot of f that holds messages, the first
// one-byte or two-byte unsigned scalar field that is invalid in all of the
// slot's messages to 1, 2, 3, ... (what a program does that decodes or builds
// a file, writes it, merges sensor data into its records and writes it
// again). It returns a description of what it set.
func EditInPlace(f *fit.File) string {
	tab := Table()
	var done []string
	for _, s := range Slots(f.Type()) {
		if !s.Multi {
			continue
		}
		msgs := SlotMsgs(f, s)
		if len(msgs) == 0 {
			continue
		}
		mi := tab.Msgs[s.Msg]
		if mi == nil {
			continue
		}
		for i, fi := range mi.BySIdx {
			if fi == nil || fi.Array || fi.Kind != fitmodel.KindNative || (fi.Base != 0x02 && fi.Base != 0x84) {
				continue
			}
			free := true
			for _, m := range msgs {
				m = reflect.Indirect(m)
				if !m.IsValid() || !FromReflect(m.Field(i)).Equal(fitmodel.InvalidVal(fi)) {
					free = false
					break
				}
			}
			if !free {
				continue
			}
			for k, m := range msgs {
				SetReflect(reflect.Indirect(m).Field(i), fitmodel.U(uint64(k%200+1)))
			}
			done = append(done, fmt.Sprintf("%s.%s", s.Name, fi.Name))
			break
		}
	}
	return strings.Join(done, ",")
}

// SameTimes makes, in every message of f that has both a valid date_time
// (UTC-kind) field and a local_date_time field, those fields hold the
// identical time.Time value: the UTC field's instant shown in a zone one, five
// and a half or minus three and a half hours from UTC (`now := ...;
// m.Timestamp = now; m.LocalTimestamp = now` in a program whose zone is not
// UTC). Unlike TweakTimes this changes what the local field means, so it has
// to be applied to every copy of the File that serves as expectation. It
// returns how many messages it changed.
func SameTimes(f *fit.File) int {
	tab := Table()
	zones := []*time.Location{time.FixedZone("A", 3600), time.FixedZone("B", 19800), time.FixedZone("C", -12600)}
	n := 0
	for _, s := range append(FileSlots(), Slots(f.Type())...) {
		for _, m := range SlotMsgs(f, s) {
			m = reflect.Indirect(m)
			if !m.IsValid() {
				continue
			}
			num, _ := MsgNumOfType(m.Type().Name())
			mi := tab.Msgs[num]
			if mi == nil {
				continue
			}
			utc, local := -1, -1
			for i, fi := range mi.BySIdx {
				if fi == nil || i >= m.NumField() {
					continue
				}
				if t, ok := m.Field(i).Interface().(time.Time); ok {
					if fi.Kind == fitmodel.KindTimeUTC && utc < 0 && !fit.IsBaseTime(t) {
						utc = i
					}
					if fi.Kind == fitmodel.KindTimeLocal && local < 0 {
						local = i
					}
				}
			}
			if utc < 0 || local < 0 {
				continue
			}
			t := m.Field(utc).Interface().(time.Time).In(zones[n%len(zones)])
			m.Field(utc).Set(reflect.ValueOf(t))
			m.Field(local).Set(reflect.ValueOf(t))
			n++
		}
	}
	return n
}

// ScribbleByteArrays overwrites every element of every []byte / []uint8 field
// of f's messages with 0xA5 and writes one more element into its spare
// capacity if it has any (a caller filling in or extending a decoded value).
// It returns how many slices it touched.
func ScribbleByteArrays(f *fit.File) int {
	n := 0
	for _, s := range append(FileSlots(), Slots(f.Type())...) {
		for _, m := range SlotMsgs(f, s) {
			m = reflect.Indirect(m)
			if !m.IsValid() {
				continue
			}
			for i := 0; i < m.NumField(); i++ {
				fv := m.Field(i)
				if fv.Kind() != reflect.Slice || fv.IsNil() || fv.Type().Elem().Kind() != reflect.Uint8 {
					continue
				}
				full := fv.Slice3(0, fv.Cap(), fv.Cap())
				for j := 0; j < full.Len(); j++ {
					full.Index(j).SetUint(0xA5)
				}
				n++
			}
		}
	}
	return n
}

// FileValues renders the field values of every message of f (header and
// checksum left out), for comparing two Files value by value.
func FileValues(f *fit.File) string {
	var sb strings.Builder
	for _, s := range append(FileSlots(), Slots(f.Type())...) {
		for i, m := range SlotMsgs(f, s) {
			if !reflect.Indirect(m).IsValid() {
				continue
			}
			fmt.Fprintf(&sb, "%s[%d]:", s.Name, i)
			for _, v := range MsgVals(m) {
				sb.WriteString(v.String())
				sb.WriteByte(' ')
			}
			sb.WriteByte('\n')
		}
	}
	return sb.String()
}

// MsgVals returns the neutral values of all fields of a message struct (or
// pointer to one).
func MsgVals(msg reflect.Value) []fitmodel.Val {
	msg = reflect.Indirect(msg)
	out := make([]fitmodel.Val, msg.NumField())
	for i := range out {
		out[i] = FromReflect(msg.Field(i))
	}
	return out
}

// FileTypes lists the 17 supported file types.
var FileTypes = []fit.FileType{
	fit.FileTypeActivity, fit.FileTypeDevice, fit.FileTypeSettings, fit.FileTypeSport,
	fit.FileTypeWorkout, fit.FileTypeCourse, fit.FileTypeSchedules, fit.FileTypeWeight,
	fit.FileTypeTotals, fit.FileTypeGoals, fit.FileTypeBloodPressure, fit.FileTypeMonitoringA,
	fit.FileTypeActivitySummary, fit.FileTypeMonitoringDaily, fit.FileTypeMonitoringB,
	fit.FileTypeSegment, fit.FileTypeSegmentList,
}

// Container returns the typed container of f through the public accessor
// matching its type (nil if the type is not one of the 17).
func Container(f *fit.File) (any, error) {
	switch f.Type() {
	case fit.FileTypeActivity:
		return f.Activity()
	case fit.FileTypeDevice:
		return f.Device()
	case fit.FileTypeSettings:
		return f.Settings()
	case fit.FileTypeSport:
		return f.Sport()
	case fit.FileTypeWorkout:
		return f.Workout()
	case fit.FileTypeCourse:
		return f.Course()
	case fit.FileTypeSchedules:
		return f.Schedules()
	case fit.FileTypeWeight:
		return f.Weight()
	case fit.FileTypeTotals:
		return f.Totals()
	case fit.FileTypeGoals:
		return f.Goals()
	case fit.FileTypeBloodPressure:
		return f.BloodPressure()
	case fit.FileTypeMonitoringA:
		return f.MonitoringA()
	case fit.FileTypeActivitySummary:
		return f.ActivitySummary()
	case fit.FileTypeMonitoringDaily:
		return f.MonitoringDaily()
	case fit.FileTypeMonitoringB:
		return f.MonitoringB()
	case fit.FileTypeSegment:
		return f.Segment()
	case fit.FileTypeSegmentList:
		return f.SegmentList()
	}
	return nil, fmt.Errorf("file type %d has no container", f.Type())
}

// Accessors returns the 17 accessor results (container, error) in the order of
// FileTypes. Containers are returned as reflect.Values of the pointers.
func Accessors(f *fit.File) (vals []reflect.Value, errs []error) {
	add := func(v any, err error) {
		vals = append(vals, reflect.ValueOf(v))
		errs = append(errs, err)
	}
	add(f.Activity())
	add(f.Device())
	add(f.Settings())
	add(f.Sport())
	add(f.Workout())
	add(f.Course())
	add(f.Schedules())
	add(f.Weight())
	add(f.Totals())
	add(f.Goals())
	add(f.BloodPressure())
	add(f.MonitoringA())
	add(f.ActivitySummary())
	add(f.MonitoringDaily())
	add(f.MonitoringB())
	add(f.Segment())
	add(f.SegmentList())
	return
}

// ContainerType returns the container struct type for a file type, derived
// from the accessor's return type on a fresh File.
func ContainerType(ft fit.FileType) reflect.Type {
	f, err := fit.NewFile(ft, fit.NewHeader(fit.V20, false))
	if err != nil {
		return nil
	}
	c, err := Container(f)
	if err != nil || c == nil {
		return nil
	}
	return reflect.TypeOf(c).Elem()
}

// Slot describes one member of a container (or of File itself).
type Slot struct {
	Name   string
	Index  int
	Msg    uint16 // message number held
	Multi  bool   // slice slot
	InFile bool   // member of File (FileId, FileCreator, TimestampCorrelation)
}

var (
	slotMu    sync.Mutex
	slotCache = map[fit.FileType][]Slot{}
)

// Slots returns the slots of the container of file type ft, in declaration
// order, followed by nothing else (File-level slots are in FileSlots).
func Slots(ft fit.FileType) []Slot {
	slotMu.Lock()
	defer slotMu.Unlock()
	if s, ok := slotCache[ft]; ok {
		return s
	}
	ct := ContainerType(ft)
	var out []Slot
	if ct != nil {
		for i := 0; i < ct.NumField(); i++ {
			f := ct.Field(i)
			if !f.IsExported() {
				continue
			}
			t := f.Type
			multi := false
			if t.Kind() == reflect.Slice {
				multi = true
				t = t.Elem()
			}
			if t.Kind() == reflect.Ptr {
				t = t.Elem()
			}
			if t.Kind() != reflect.Struct || !strings.HasSuffix(t.Name(), "Msg") {
				continue
			}
			num, ok := MsgNumOfType(t.Name())
			if !ok {
				num = 0xFFFF
			}
			out = append(out, Slot{Name: f.Name, Index: i, Msg: num, Multi: multi})
		}
	}
	slotCache[ft] = out
	return out
}

// FileSlots are the message slots of File itself.
func FileSlots() []Slot {
	ft := reflect.TypeOf(fit.File{})
	var out []Slot
	for i := 0; i < ft.NumField(); i++ {
		f := ft.Field(i)
		if !f.IsExported() {
			continue
		}
		t := f.Type
		if t.Kind() == reflect.Ptr {
			t = t.Elem()
		}
		if t.Kind() != reflect.Struct || !strings.HasSuffix(t.Name(), "Msg") {
			continue
		}
		num, ok := MsgNumOfType(t.Name())
		if !ok {
			num = 0xFFFF
		}
		out = append(out, Slot{Name: f.Name, Index: i, Msg: num, InFile: true})
	}
	return out
}

// HostedMsgs returns, for a file type, the message numbers observable
// through the File (container slots plus File-level slots).
func HostedMsgs(ft fit.FileType) []uint16 {
	seen := map[uint16]bool{}
	var out []uint16
	for _, s := range append(FileSlots(), Slots(ft)...) {
		if !seen[s.Msg] && s.Msg != 0xFFFF {
			seen[s.Msg] = true
			out = append(out, s.Msg)
		}
	}
	sort.Slice(out, func(i, j int) bool { return out[i] < out[j] })
	return out
}

// SlotMsgs returns the messages held by slot s of file f, as pointers'
// element values, in order.
func SlotMsgs(f *fit.File, s Slot) []reflect.Value {
	var holder reflect.Value
	if s.InFile {
		holder = reflect.ValueOf(f).Elem()
	} else {
		c, err := Container(f)
		if err != nil || c == nil {
			return nil
		}
		holder = reflect.ValueOf(c)
		if holder.IsNil() {
			return nil
		}
		holder = holder.Elem()
	}
	v := holder.Field(s.Index)
	var out []reflect.Value
	switch v.Kind() {
	case reflect.Slice:
		for i := 0; i < v.Len(); i++ {
			e := v.Index(i)
			if e.Kind() == reflect.Ptr {
				if e.IsNil() {
					out = append(out, reflect.Value{})
					continue
				}
				e = e.Elem()
			}
			out = append(out, e)
		}
	case reflect.Ptr:
		if !v.IsNil() {
			out = append(out, v.Elem())
		}
	case reflect.Struct:
		out = append(out, v)
	}
	return out
}
