//go:build verif

package c18

import (
	"bytes"
	"encoding/hex"
	"encoding/json"
	"fmt"
	"os"
	"os/exec"
	"strings"
	"testing"

	"github.com/tormoder/fit"
	"pgregory.net/rapid"

	"verif/fitmodel"
	"verif/gen"
	"verif/hx"
	"verif/oracle"
	"verif/prof"
)

type multiCase struct {
	FileTypes []int              `json:"file_types"`
	Streams   []*fitmodel.Stream `json:"streams"`
	Text      []string           `json:"text,omitempty"`
	// CutAfter[i] > 0: stream i is decoded a second time, cut short inside
	// the record that follows its first CutAfter[i] records
	CutAfter []int `json:"cut_after_records,omitempty"`
}

// Emulation of the defective accumulation (findings D11 and K1), used only
// to recognise exactly those findings: a process-wide 12-bit accumulator fed
// with the 8-bit truncated raw distance. Every Decode this test binary makes
// goes through decodeTracked so the emulation sees the same history.
var emuDistance = fitmodel.Acc{Bits: 12}

func rawDistance(b1, b2 uint32, d11 bool) uint32 {
	if d11 {
		return b1>>4 | (b2<<4)&0xFF
	}
	return b1>>4 | b2<<4
}

type decoded struct {
	f   *fit.File
	err error
	exp *oracle.Expected
	// emulated Distance per message (defective behaviour under the open findings)
	emu map[*fitmodel.IMsg]uint32
}

func decodeTracked(s *fitmodel.Stream, ft int) (*decoded, any) {
	return decodeTrackedBytes(s, s.Bytes(), ft)
}

// decodeTrackedBytes decodes data and builds the expectation from the model
// stream s (for a truncated input: the records complete before the cut).
func decodeTrackedBytes(s *fitmodel.Stream, data []byte, ft int) (*decoded, any) {
	d := &decoded{emu: map[*fitmodel.IMsg]uint32{}}
	ip := fitmodel.Interpret(s, prof.Table())
	p := oracle.Catch(func() { d.f, d.err = fit.Decode(bytes.NewReader(data)) })
	if !hx.Open("K1") {
		emuDistance = fitmodel.Acc{Bits: 12} // accumulators are per file once K1 is repaired
	}
	// wire values before expansion, for the emulation
	type csd struct {
		m      *fitmodel.IMsg
		b1, b2 uint32
	}
	var feeds []csd
	hostsRecords := false
	for _, sl := range prof.Slots(fit.FileType(ft)) {
		if sl.Msg == fitmodel.MsgRecord {
			hostsRecords = true
		}
	}
	if hostsRecords {
		for _, m := range ip.Msgs {
			if m.Global != fitmodel.MsgRecord {
				continue
			}
			i := m.Info.Index("CompressedSpeedDistance")
			if i < 0 || m.Und[i] {
				continue
			}
			v := m.Vals[i]
			if v.K == 'a' && len(v.Elems) == 3 && !(v.Elems[0].U == 0xFF && v.Elems[1].U == 0xFF && v.Elems[2].U == 0xFF) {
				feeds = append(feeds, csd{m, uint32(v.Elems[1].U), uint32(v.Elems[2].U)})
			}
		}
	}
	for _, fd := range feeds {
		d.emu[fd.m] = emuDistance.Add(rawDistance(fd.b1, fd.b2, hx.Open("D11")))
	}
	d.exp = oracle.Expect(ip, fit.FileType(ft), true)
	return d, p
}

// judge compares one decoded file with the per-file model.
func judge(rec *hx.Recorder, d *decoded, text string, labels map[string]int) (sig, msg string, ok bool) {
	if d.err != nil {
		return "", fmt.Sprintf("Decode failed: %v\nstream: %s", d.err, text), false
	}
	diffs, _, und := oracle.Compare(d.f, d.exp, oracle.CompareOpts{})
	rec.Undecided(int64(und))
	for k, v := range d.exp.Labels {
		labels[k] += v
	}
	var real []string
	sigs := map[string]bool{}
	for _, df := range diffs {
		if !df.Dst {
			// not a component destination: C02's business, but a routing or
			// value bug would make this check's verdicts meaningless
			real = append(real, "(not a component destination) "+df.String())
			continue
		}
		if df.AccDst {
			want := d.exp.Slots[df.Slot][df.Index]
			switch df.Field {
			case "TotalCycles", "AccumulatedPower":
				if hx.Open("D10") && df.Got == "u0" {
					rec.Excluded("D10", 1)
					rec.Known("D10", df.String())
					continue
				}
				sigs["D10:mask0-accumulator"] = true
			case "Distance":
				if e, ok := d.emu[want]; (hx.Open("D11") || hx.Open("K1")) && ok && df.Got == fmt.Sprintf("u%d", e) {
					id := "K1"
					if hx.Open("D11") {
						id = "D11"
					}
					rec.Excluded(id, 1)
					rec.Known(id, df.String())
					if hx.Open("K1") {
						rec.Known("K1", "record.distance continues across Decode calls: "+df.String())
					}
					continue
				}
			}
		}
		real = append(real, df.String())
	}
	if len(real) > 0 {
		if len(real) > 8 {
			real = real[:8]
		}
		s := ""
		if len(sigs) == 1 {
			for k := range sigs {
				s = k
			}
		}
		return s, strings.Join(real, "\n") + "\nstream: " + text, false
	}
	return "", "", true
}

var compMsgs = []uint16{fitmodel.MsgRecord, fitmodel.MsgLap, fitmodel.MsgSession, fitmodel.MsgSegmentLap, fitmodel.MsgEvent}

// compFileTypes: containers that hold at least one of the five messages.
func compFileTypes() []fit.FileType {
	var out []fit.FileType
	for _, ft := range prof.FileTypes {
		for _, s := range prof.Slots(ft) {
			if fitmodel.ExpandsComponents(s.Msg) {
				out = append(out, ft)
				break
			}
		}
	}
	return out
}

func relevant(g uint16, fi *fitmodel.FieldInfo) bool {
	if !fitmodel.ExpandsComponents(g) {
		return true
	}
	if gen.Interesting(g, fi) && fi.Kind == fitmodel.KindNative {
		return true
	}
	for _, n := range fitmodel.DestinationFields[g] {
		if n == fi.Name {
			return true
		}
	}
	return fi.Num == 253 || fi.Num == 254 || fi.Num < 3
}

func drawStream(d gen.D) (*fitmodel.Stream, int) {
	fts := compFileTypes()
	ft := fts[d.Int(0, len(fts)-1, "ft")]
	o := gen.DefaultStreamOpts()
	o.FileType = int(ft)
	var msgs []uint16
	for _, s := range prof.Slots(ft) {
		if fitmodel.ExpandsComponents(s.Msg) {
			msgs = append(msgs, s.Msg)
		}
	}
	o.Msgs = msgs
	o.Unhosted = false
	o.UnknownMsgs = false
	o.UnknownFlds = false
	o.DevFields = false
	o.ExtraFileIds = false
	// a quarter of the streams declare component sources (and other fields)
	// with narrower compatible base types, as C02 does
	o.Narrow = d.Int(0, 3, "narrow") == 0
	o.LongArrays = d.Chance(10, "longarr")
	o.MaxFields = 6
	o.MinRecs, o.MaxRecs = 1, 30
	o.RedefinePct = 10
	o.CompressedPct = 5
	o.FieldFilter = relevant
	o.ValueHint = func(d gen.D, g uint16, fd fitmodel.FieldDef, be bool) ([]byte, bool) {
		// event kinds that have data components
		if g == fitmodel.MsgEvent && fd.Num == 0 && fd.Size == 1 && d.Int(0, 9, "evk") < 7 {
			return []byte{[]byte{fitmodel.EventSportPoint, fitmodel.EventFrontGearChange, fitmodel.EventRearGearChange, fitmodel.EventRadarThreat}[d.Int(0, 3, "ev")]}, true
		}
		return nil, false
	}
	s, _ := gen.GenStream(d, o)
	return s, int(ft)
}

// presenceStreams builds the streams of the presence sub-check for message g
// in a file of type ft.
func presenceStreams(ft fit.FileType, g uint16) []*fitmodel.Stream {
	mi := prof.Table().Msgs[g]
	isDst := map[string]bool{}
	for _, n := range fitmodel.DestinationFields[g] {
		isDst[n] = true
	}
	var srcs, dsts []*fitmodel.FieldInfo
	for _, n := range prof.FieldNums(g) {
		fi := mi.Fields[n]
		if fi.Kind != fitmodel.KindNative || fi.SIndex < 0 || fi.SIndex >= mi.NFields {
			continue
		}
		switch {
		case isDst[fi.Name] && !(g == fitmodel.MsgRecord && fi.Name == "Speed") && !(g == fitmodel.MsgEvent && fi.Name == "Data"):
			dsts = append(dsts, fi)
		case gen.Interesting(g, fi) || isDst[fi.Name]:
			srcs = append(srcs, fi)
		}
	}
	fieldDef := func(fi *fitmodel.FieldInfo) fitmodel.FieldDef {
		bt := fitmodel.MustBase(fi.Base)
		size := bt.Size
		if fi.Array {
			size = bt.Size * fi.Length
		}
		return fitmodel.FieldDef{Num: fi.Num, Size: byte(size), Base: fi.Base}
	}
	var out []*fitmodel.Stream
	kinds := []byte{0}
	if g == fitmodel.MsgEvent {
		kinds = []byte{fitmodel.EventSportPoint, fitmodel.EventFrontGearChange, fitmodel.EventRearGearChange, fitmodel.EventRadarThreat, 0}
	}
	for _, kind := range kinds {
		for variant := 0; variant < 2+len(dsts); variant++ {
			for _, be := range []bool{false, true} {
				def := fitmodel.Rec{IsDef: true, Local: 1, Global: g, BigEndian: be, Fields: []fitmodel.FieldDef{{Num: 253, Size: 4, Base: 0x86}}}
				var fields []*fitmodel.FieldInfo
				fields = append(fields, srcs...)
				for i, dfi := range dsts {
					if variant == 0 || variant == 2+i {
						continue // absent
					}
					fields = append(fields, dfi)
				}
				if len(def.Fields)+len(fields) > 80 {
					continue
				}
				for _, fi := range fields {
					def.Fields = append(def.Fields, fieldDef(fi))
				}
				s := &fitmodel.Stream{HeaderSize: 12, Proto: 0x20, Recs: []fitmodel.Rec{
					{IsDef: true, Global: 0, Fields: []fitmodel.FieldDef{{Num: 0, Size: 1, Base: 0}}}, {Raw: []byte{byte(ft)}}, def,
				}}
				for r := 0; r < 2; r++ {
					raw := fitmodel.PutWireUint(uint64(0x3B9ACA00+r), 4, be)
					for fi2, fd := range def.Fields[1:] {
						bt := fitmodel.MustBase(fd.Base)
						for k := 0; k < int(fd.Size)/bt.Size; k++ {
							// valid mid-range values that differ per field,
							// element and record
							v := uint64(0x11 + 7*fi2 + 3*k + 5*r)
							if bt.Size > 1 {
								v |= uint64(0x02+fi2+r) << 8
							}
							if g == fitmodel.MsgEvent && fd.Num == 0 {
								v = uint64(kind)
							}
							raw = append(raw, fitmodel.PutWireUint(v, bt.Size, be)...)
						}
					}
					s.Recs = append(s.Recs, fitmodel.Rec{Local: 1, Raw: raw})
				}
				out = append(out, s)
			}
		}
	}
	return out
}

func checkMulti(rec *hx.Recorder, c *multiCase, labels map[string]int) (string, string, bool) {
	for i, s := range c.Streams {
		d, p := decodeTracked(s, c.FileTypes[i])
		if p != nil {
			return "", fmt.Sprintf("Decode panicked: %v", p), false
		}
		if sig, msg, ok := judge(rec, d, s.String(), labels); !ok {
			return sig, fmt.Sprintf("file %d of %d decoded in this process: %s", i+1, len(c.Streams), msg), false
		}
		if i < len(c.CutAfter) && c.CutAfter[i] >= 2 && c.CutAfter[i] < len(s.Recs) {
			// the same input cut short inside the record after CutAfter[i]
			// records: Decode fails and hands back the File built so far,
			// whose messages went through the same component rules
			lay := s.Layout()
			n := c.CutAfter[i]
			ps := *s
			ps.Recs = s.Recs[:n]
			k := lay.RecEnd[n-1]
			if lay.RecEnd[n]-k > 1 {
				k++ // one byte into the next record
			}
			dc, p := decodeTrackedBytes(&ps, lay.Bytes[:k], c.FileTypes[i])
			if p != nil {
				return "", fmt.Sprintf("Decode of the input cut after %d bytes panicked: %v", k, p), false
			}
			if dc.err == nil {
				return "", fmt.Sprintf("Decode of the input cut after %d of %d bytes returned no error", k, len(lay.Bytes)), false
			}
			if dc.f != nil {
				dc.err = nil // judged on the partial File
				labels["partial File of a cut input"]++
				if sig, msg, ok := judge(rec, dc, ps.String(), labels); !ok {
					return sig, fmt.Sprintf("file %d of %d cut after %d records (partial File returned with the error): %s", i+1, len(c.Streams), n, msg), false
				}
			}
		}
	}
	return "", "", true
}

// Fresh process: the child decodes one stream as the first library call and
// prints the accumulated destinations of every record.
func childMain() {
	raw, _ := hex.DecodeString(os.Getenv("VERIF_C18_CHILD"))
	if pre, _ := hex.DecodeString(os.Getenv("VERIF_C18_PRELUDE")); len(pre) > 0 {
		// a file of a type that does not hold records is decoded first:
		// messages a file drops leave no trace
		fit.Decode(bytes.NewReader(pre))
	}
	f, err := fit.Decode(bytes.NewReader(raw))
	if err != nil {
		fmt.Println("ERR", err)
		os.Exit(0)
	}
	a, err := f.Activity()
	if err != nil {
		fmt.Println("ERR", err)
		os.Exit(0)
	}
	for _, r := range a.Records {
		fmt.Printf("REC %d %d %d\n", r.Distance, r.TotalCycles, r.AccumulatedPower)
	}
	os.Exit(0)
}

func TestMain(m *testing.M) {
	if os.Getenv("VERIF_C18_CHILD") != "" {
		childMain()
	}
	os.Exit(m.Run())
}

// accStream: an activity file with n records carrying the three accumulated
// sources.
func accStream(vals [][5]byte) *fitmodel.Stream {
	s := &fitmodel.Stream{HeaderSize: 12, Proto: 0x20, Recs: []fitmodel.Rec{
		{IsDef: true, Global: 0, Fields: []fitmodel.FieldDef{{Num: 0, Size: 1, Base: 0}}}, {Raw: []byte{4}},
		{IsDef: true, Local: 1, Global: 20, Fields: []fitmodel.FieldDef{{Num: 8, Size: 3, Base: 0x0D}, {Num: 18, Size: 1, Base: 2}, {Num: 28, Size: 2, Base: 0x84}}},
	}}
	for _, v := range vals {
		s.Recs = append(s.Recs, fitmodel.Rec{Local: 1, Raw: []byte{v[0], v[1], v[2], v[3], v[4], 0}})
	}
	return s
}

// preludeType, when not 0, makes the fresh-process child first decode the
// same records in a file of this type (one that does not hold records).
var preludeType byte

func freshProcess(rec *hx.Recorder, s *fitmodel.Stream) (string, bool) {
	cmd := exec.Command(os.Args[0])
	cmd.Env = append(os.Environ(), "VERIF_C18_CHILD="+hex.EncodeToString(s.Bytes()), "VERIF_OUT=")
	if preludeType != 0 && len(s.Recs) > 1 && len(s.Recs[1].Raw) == 1 {
		ps := *s
		ps.Recs = append([]fitmodel.Rec{}, s.Recs...)
		ps.Recs[1] = fitmodel.Rec{Local: s.Recs[1].Local, Raw: []byte{preludeType}}
		cmd.Env = append(cmd.Env, "VERIF_C18_PRELUDE="+hex.EncodeToString(ps.Bytes()))
	}
	out, err := cmd.Output()
	if err != nil {
		return fmt.Sprintf("HARNESS: child failed: %v", err), false
	}
	ip := fitmodel.Interpret(s, prof.Table())
	exp := oracle.Expect(ip, fit.FileTypeActivity, true)
	recs := exp.Slots["Records"]
	var lines []string
	for _, l := range strings.Split(strings.TrimSpace(string(out)), "\n") {
		if strings.HasPrefix(l, "REC ") {
			lines = append(lines, l)
		}
		if strings.HasPrefix(l, "ERR") {
			return "child: " + l, false
		}
	}
	if len(lines) != len(recs) {
		return fmt.Sprintf("child reported %d records, model %d", len(lines), len(recs)), false
	}
	emu := fitmodel.Acc{Bits: 12}
	for i, m := range recs {
		var dist, cyc, pow uint64
		fmt.Sscanf(lines[i], "REC %d %d %d", &dist, &cyc, &pow)
		wd := m.Vals[m.Info.Index("Distance")].U
		wc := m.Vals[m.Info.Index("TotalCycles")].U
		wp := m.Vals[m.Info.Index("AccumulatedPower")].U
		csd := m.Vals[m.Info.Index("CompressedSpeedDistance")]
		e := uint64(emu.Add(rawDistance(uint32(csd.Elems[1].U), uint32(csd.Elems[2].U), true)))
		if dist != wd {
			if hx.Open("D11") && dist == e {
				rec.Excluded("D11", 1)
				rec.Known("D11", fmt.Sprintf("fresh process, record %d: distance %d, running sum of 12-bit deltas is %d", i, dist, wd))
			} else {
				return fmt.Sprintf("fresh process, record %d: distance %d, running sum of rollover-corrected 12-bit deltas since the start of the file is %d\nstream: %s", i, dist, wd, s.String()), false
			}
		}
		if cyc != wc {
			if hx.Open("D10") && cyc == 0 {
				rec.Excluded("D10", 1)
				rec.Known("D10", fmt.Sprintf("fresh process, record %d: total_cycles %d, running sum is %d", i, cyc, wc))
			} else {
				return fmt.Sprintf("fresh process, record %d: total_cycles %d, model %d\nstream: %s", i, cyc, wc, s.String()), false
			}
		}
		if pow != wp {
			if hx.Open("D10") && pow == 0 {
				rec.Excluded("D10", 1)
			} else {
				return fmt.Sprintf("fresh process, record %d: accumulated_power %d, model %d\nstream: %s", i, pow, wp, s.String()), false
			}
		}
	}
	return "", true
}

func TestC18(t *testing.T) {
	hx.Main(t, "C18", func(rec *hx.Recorder) {
		if rp, ok := hx.LoadReplay(); ok {
			var c multiCase
			if err := json.Unmarshal(rp.Case, &c); err != nil {
				t.Fatal(err)
			}
			rec.Eval("replay", 1)
			if rp.Sub == "fresh-process" {
				for _, pt := range []byte{0, 5, 34, 2, 10} {
					preludeType = pt
					if msg, ok := freshProcess(rec, c.Streams[0]); !ok {
						rec.Fail(rp.Sub, "", fmt.Sprintf("(file type decoded first in the child: %d) %s", pt, msg), &c)
						break
					}
				}
				preludeType = 0
				return
			}
			if sig, msg, ok := checkMulti(rec, &c, map[string]int{}); !ok {
				rec.Fail(rp.Sub, sig, msg, &c)
			}
			return
		}

		if hx.FirstShard() {
			// fresh-process cases: accumulated destinations since the start of the file
			nfp := hx.Pick(8, 100)
			for i := 0; i < nfp; i++ {
				var vals [][5]byte
				x := uint32(uint64(i)*2654435761 + 977)
				for j := 0; j < 3+i%5; j++ {
					x ^= x << 13
					x ^= x >> 17
					x ^= x << 5
					v := [5]byte{byte(x), byte(x >> 8), byte(x >> 16), byte(x >> 24), byte(x >> 5)}
					if v[0] == 0xFF && v[1] == 0xFF && v[2] == 0xFF {
						v[0] = 0
					}
					if v[3] == 0xFF {
						v[3] = 1
					}
					if v[4] == 0xFF {
						v[4] = 2
					}
					vals = append(vals, v)
				}
				s := accStream(vals)
				// every other case: the child first decodes the same
				// records in a workout / segment / settings / totals file
				preludeType = 0
				if i%2 == 1 {
					preludeType = []byte{5, 34, 2, 10}[(i/2)%4]
				}
				if msg, ok := freshProcess(rec, s); !ok {
					if preludeType != 0 {
						msg = fmt.Sprintf("(the child had decoded the same records in a file of type %d first, which does not hold records) %s", preludeType, msg)
					}
					rec.Fail("fresh-process", "", msg, &multiCase{FileTypes: []int{4}, Streams: []*fitmodel.Stream{s}})
				}
			}
			preludeType = 0
			rec.Eval("fresh-process", int64(nfp))
			rec.NonTrivialEnum(int64(nfp))

			// presence patterns: every message with components in every file
			// type that holds it, with all its sources on the wire and its
			// destinations (a) absent, (b) all present with valid values,
			// (c) present except one; both byte orders. The component rule
			// is about what the sources are, not about what else the
			// message carries.
			np := int64(0)
			for _, ft := range compFileTypes() {
				for _, sl := range prof.Slots(ft) {
					if !fitmodel.ExpandsComponents(sl.Msg) {
						continue
					}
					for _, s := range presenceStreams(ft, sl.Msg) {
						np++
						c := &multiCase{FileTypes: []int{int(ft)}, Streams: []*fitmodel.Stream{s}}
						if sig, msg, ok := checkMulti(rec, c, map[string]int{}); !ok {
							rec.Fail("presence", sig, msg, c)
						}
					}
				}
			}
			rec.Eval("presence", np)
			rec.NonTrivialEnum(np)

		}

		hx.RapidCheck(t, rec, "histories", func(rt *rapid.T, fail func(string, string, any)) {
			d := gen.D{T: rt}
			n := d.Int(1, 4, "nfiles")
			c := &multiCase{}
			for i := 0; i < n; i++ {
				s, ft := drawStream(d)
				c.Streams = append(c.Streams, s)
				c.FileTypes = append(c.FileTypes, ft)
				c.Text = append(c.Text, s.String())
				cut := 0
				if len(s.Recs) > 3 && d.Int(0, 2, "cut") == 0 {
					cut = d.Int(3, len(s.Recs)-1, "cutafter")
				}
				c.CutAfter = append(c.CutAfter, cut)
			}
			labels := map[string]int{}
			rec.Eval("histories", 1)
			sig, msg, ok := checkMulti(rec, c, labels)
			for k := range labels {
				rec.Class(k, 1)
			}
			if n >= 2 {
				rec.Class(">=2 files in one process", 1)
			}
			if (labels["enhanced-highbyte"] > 0 || labels["csd-distance-high-nibble"] > 0) && (labels["csd-rollover"] > 0 || labels["cycles-rollover"] > 0 || labels["power-rollover"] > 0) && n >= 2 {
				rec.NonTrivial(hx.FP(strings.Join(c.Text, "|")))
				rec.Class("non-trivial", 1)
			}
			if rec.WantSample() && n <= 2 && len(c.Streams[0].Recs) < 8 && labels["enhanced"]+labels["csd"]+labels["gear"]+labels["score"] > 0 {
				rec.Sample(c.Text)
			}
			if !ok {
				fail(sig, msg, c)
			}
		})
	})
}
