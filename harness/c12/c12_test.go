//go:build verif

package c12

import (
	"bytes"
	"encoding/json"
	"fmt"
	"strings"
	"testing"
	"time"

	"github.com/tormoder/fit"
	"pgregory.net/rapid"

	"verif/fitmodel"
	"verif/gen"
	"verif/hx"
	"verif/oracle"
	"verif/prof"
)

type streamCase struct {
	FileType int              `json:"file_type"`
	Stream   *fitmodel.Stream `json:"stream"`
	Text     string           `json:"text"`
	// Chained: decode the stream as the second file of a chain whose first
	// file (chainHead) carries a full timestamp
	Chained bool `json:"chained,omitempty"`
}

func chainHead() streamCase {
	first := &fitmodel.Stream{HeaderSize: 12, Proto: 0x20, Recs: []fitmodel.Rec{
		{IsDef: true, Global: 0, Fields: []fitmodel.FieldDef{{Num: 0, Size: 1, Base: 0}}}, {Raw: []byte{4}},
		{IsDef: true, Local: 1, Global: 20, Fields: []fitmodel.FieldDef{{Num: 253, Size: 4, Base: 0x86}}},
		{Local: 1, Raw: []byte{0x05, 0xCA, 0x9A, 0x3B}},
	}}
	return streamCase{FileType: 4, Stream: first, Text: first.String()}
}

// timeMsgs: messages that have a timestamp (253), another date_time or a
// local_date_time field.
func timeMsgs(ft fit.FileType) []uint16 {
	var out []uint16
	tab := prof.Table()
	for _, m := range prof.HostedMsgs(ft) {
		if m == 0 {
			continue
		}
		for _, fi := range tab.Msgs[m].Fields {
			if fi.Kind == fitmodel.KindTimeUTC || fi.Kind == fitmodel.KindTimeLocal {
				out = append(out, m)
				break
			}
		}
	}
	return out
}

func isTimeField(mi *fitmodel.MsgInfo, name string) bool {
	i := mi.Index(name)
	if i < 0 {
		return false
	}
	k := mi.BySIdx[i].Kind
	return k == fitmodel.KindTimeUTC || k == fitmodel.KindTimeLocal
}

func checkStream(rec *hx.Recorder, c streamCase, labels map[string]int) (string, bool) {
	tab := prof.Table()
	ip := fitmodel.Interpret(c.Stream, tab)
	if ip.FailRec >= 0 {
		return "HARNESS: " + ip.FailWhy, false
	}
	var f *fit.File
	var err error
	if p := oracle.Catch(func() { f, err = fit.Decode(bytes.NewReader(c.Stream.Bytes())) }); p != nil {
		return fmt.Sprintf("Decode panicked: %v\nstream: %s", p, c.Text), false
	}
	if err != nil {
		return fmt.Sprintf("Decode failed: %v\nstream: %s", err, c.Text), false
	}
	exp := oracle.Expect(ip, fit.FileType(c.FileType), true)
	diffs, _, und := oracle.Compare(f, exp, oracle.CompareOpts{})
	rec.Undecided(int64(und))
	for k, v := range ip.Labels {
		labels[k] += v
	}
	var real []string
	for _, d := range diffs {
		// this property is about the time fields (everything else is C02's)
		var mi *fitmodel.MsgInfo
		for _, s := range exp.SlotList {
			name := s.Name
			if s.InFile {
				name = "File." + s.Name
			}
			if name == d.Slot {
				mi = tab.Msgs[s.Msg]
			}
		}
		if d.Index >= 0 && mi != nil && !isTimeField(mi, d.Field) {
			continue
		}
		real = append(real, d.String())
	}
	if len(real) > 0 {
		if len(real) > 6 {
			real = real[:6]
		}
		return strings.Join(real, "\n") + "\nstream: " + c.Text, false
	}
	return "", true
}

// arithmetic: date_time and local_date_time decoding on a single-field file
// for boundary second counts.
func arithmetic(rec *hx.Recorder) {
	secs := []uint32{0, 1, 31, 32, 0x0FFFFFFF, 0x10000000, 0x10000001, 0x3B9ACA00, 0x7FFFFFFF, 0x80000000, 0xFFFFFFFE, 0xFFFFFFFF}
	for s := uint32(1); s != 0 && s < 0xF0000000; s = s*3 + 7 {
		secs = append(secs, s)
	}
	n := int64(0)
	for _, be := range []bool{false, true} {
		for _, v := range secs {
			// record.timestamp (253) in an activity file
			s := &fitmodel.Stream{HeaderSize: 12, Proto: 0x20, Recs: []fitmodel.Rec{
				{IsDef: true, Global: 0, Fields: []fitmodel.FieldDef{{Num: 0, Size: 1, Base: 0}}}, {Raw: []byte{4}},
				{IsDef: true, Local: 1, BigEndian: be, Global: 20, Fields: []fitmodel.FieldDef{{Num: 253, Size: 4, Base: 0x86}}},
				{Local: 1, Raw: fitmodel.PutWireUint(uint64(v), 4, be)},
				// session.start_time (field 2): another date_time, must not re-base
				{IsDef: true, Local: 2, BigEndian: be, Global: 18, Fields: []fitmodel.FieldDef{{Num: 2, Size: 4, Base: 0x86}}},
				{Local: 2, Raw: fitmodel.PutWireUint(uint64(v^0x55), 4, be)},
				// compressed record after it
				{IsDef: true, Local: 3, BigEndian: be, Global: 20, Fields: []fitmodel.FieldDef{{Num: 3, Size: 1, Base: 2}}},
				{Local: 3, Compressed: true, TimeOffset: byte((v + 5) & 31), Raw: []byte{70}},
				// activity.local_timestamp (field 5)
				{IsDef: true, Local: 4, BigEndian: be, Global: 34, Fields: []fitmodel.FieldDef{{Num: 5, Size: 4, Base: 0x86}}},
				{Local: 4, Raw: fitmodel.PutWireUint(uint64(v+7200), 4, be)},
			}}
			c := streamCase{FileType: 4, Stream: s, Text: s.String()}
			n++
			if msg, ok := checkStream(rec, c, map[string]int{}); !ok {
				rec.Fail("arithmetic", "", msg, c)
			}
			// direct statement of the epoch rule, independent of the interpreter
			f, err := fit.Decode(bytes.NewReader(s.Bytes()))
			if err == nil {
				a, _ := f.Activity()
				if a != nil && len(a.Records) > 0 {
					want := time.Date(1989, 12, 31, 0, 0, 0, 0, time.UTC).Add(time.Duration(v) * time.Second)
					if v == 0xFFFFFFFF {
						want = time.Date(1989, 12, 31, 0, 0, 0, 0, time.UTC)
					}
					if !a.Records[0].Timestamp.Equal(want) {
						rec.Fail("arithmetic", "", fmt.Sprintf("timestamp %#x decoded as %v, want %v", v, a.Records[0].Timestamp, want), c)
					}
				}
			}
		}
	}
	rec.Eval("arithmetic", n)
	rec.NonTrivialEnum(n)
}

// checkChain: in a chain every file follows the time rules on its own (the
// reference of one file does not carry into the next).
func checkChain(rec *hx.Recorder, cs []streamCase) (string, bool) {
	var chain []byte
	for _, c := range cs {
		chain = append(chain, c.Stream.Bytes()...)
	}
	var fs []*fit.File
	var err error
	if p := oracle.Catch(func() { fs, err = fit.DecodeChained(bytes.NewReader(chain)) }); p != nil {
		return fmt.Sprintf("DecodeChained panicked: %v", p), false
	}
	if err != nil || len(fs) != len(cs) {
		return fmt.Sprintf("DecodeChained: err=%v, %d files for %d", err, len(fs), len(cs)), false
	}
	tab := prof.Table()
	for i, c := range cs {
		ip := fitmodel.Interpret(c.Stream, tab)
		exp := oracle.Expect(ip, fit.FileType(c.FileType), true)
		diffs, _, _ := oracle.Compare(fs[i], exp, oracle.CompareOpts{})
		for _, d := range diffs {
			if d.AccDst {
				continue
			}
			return fmt.Sprintf("file %d of the chain: %s\nstream: %s", i+1, d.String(), c.Text), false
		}
	}
	return "", true
}

func TestC12(t *testing.T) {
	hx.Main(t, "C12", func(rec *hx.Recorder) {
		if rp, ok := hx.LoadReplay(); ok {
			var c streamCase
			if err := json.Unmarshal(rp.Case, &c); err != nil {
				t.Fatal(err)
			}
			c.Text = c.Stream.String()
			rec.Eval("replay", 1)
			if c.Chained {
				if msg, ok := checkChain(rec, []streamCase{chainHead(), c}); !ok {
					rec.Fail(rp.Sub, "", "in a chain: "+msg, c)
				}
				return
			}
			if msg, ok := checkStream(rec, c, map[string]int{}); !ok {
				rec.Fail(rp.Sub, "", msg, c)
			}
			return
		}
		if hx.FirstShard() {
			arithmetic(rec)
		}

		fts := []fit.FileType{fit.FileTypeActivity, fit.FileTypeActivity, fit.FileTypeMonitoringA, fit.FileTypeMonitoringB, fit.FileTypeSchedules, fit.FileTypeCourse, fit.FileTypeWeight, fit.FileTypeMonitoringDaily}
		hx.RapidCheck(t, rec, "sequences", func(rt *rapid.T, fail func(string, string, any)) {
			d := gen.D{T: rt}
			ft := fts[d.Int(0, len(fts)-1, "ft")]
			o := gen.DefaultStreamOpts()
			o.FileType = int(ft)
			o.Msgs = timeMsgs(ft)
			o.TimeBias = true
			o.Unhosted = false
			o.UnknownMsgs = d.Chance(30, "unkm")
			o.UnknownFlds = false
			o.DevFields = false
			o.ExtraFileIds = false
			o.Narrow = d.Chance(20, "narrow")
			o.MaxFields = 3
			o.MinRecs, o.MaxRecs = 4, 60
			o.CompressedPct = 55
			o.RedefinePct = 8
			s, info := gen.GenStream(d, o)
			c := streamCase{FileType: int(info.FileType), Stream: s, Text: s.String()}
			labels := map[string]int{}
			rec.Eval("sequences", 1)
			msg, ok := checkStream(rec, c, labels)
			for k := range labels {
				rec.Class(k, 1)
			}
			if labels["rollover"] > 0 && labels["rebase"] >= 2 && labels["compressed-decided"] >= 2 {
				rec.NonTrivial(hx.FP(c.Text))
				rec.Class("non-trivial: rollover + re-base between compressed runs", 1)
			}
			if rec.WantSample() && len(s.Recs) < 14 && labels["compressed-decided"] > 0 {
				rec.Sample(c.Text)
			}
			if !ok {
				fail("", msg, c)
			}
			// every 4th case: the same stream as second file of a chain whose
			// first file left a reference behind
			if len(s.Recs)%4 == 0 {
				rec.Eval("chained", 1)
				if msg, ok := checkChain(rec, []streamCase{chainHead(), c}); !ok {
					c.Chained = true
					fail("", "in a chain: "+msg, c)
				}
			}
		})
	})
}
