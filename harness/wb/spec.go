package wb

import (
	"fmt"
	"strconv"
	"strings"
)

// Base type codes by profile name (FIT protocol base type table).
var baseCode = map[string]byte{
	"enum": 0x00, "sint8": 0x01, "uint8": 0x02, "sint16": 0x83, "uint16": 0x84, "sint32": 0x85, "uint32": 0x86,
	"string": 0x07, "float32": 0x88, "float64": 0x89, "uint8z": 0x0A, "uint16z": 0x8B, "uint32z": 0x8C, "byte": 0x0D,
	"sint64": 0x8E, "uint64": 0x8F, "uint64z": 0x90,
	"unit8": 0x02, // typo in SDK 20.14
}

// Kinds of the Go binding.
const (
	KindNative    = 0
	KindTimeUTC   = 1
	KindTimeLocal = 2
	KindLat       = 3
	KindLng       = 4
)

// FieldSpec is what an enabled field row of the workbook must become in the
// generated code.
type FieldSpec struct {
	Row    *Row
	Msg    string // snake case message name
	Num    int
	GoName string
	Base   byte
	Kind   int
	Array  bool
	Length int
}

// Code returns the value of the generated types.Fit constant:
// kind<<6 | array<<5 | low five bits of the base type.
func (f FieldSpec) Code() int {
	c := int(f.Base & 0x1F)
	if f.Array {
		c |= 0x20
	}
	return c | f.Kind<<6
}

// Resolve computes the FieldSpec of a field row.
func Resolve(r *Row, types map[string]*TypeDef) (FieldSpec, error) {
	fs := FieldSpec{Row: r, Msg: r.Msg, Num: r.Num, GoName: CamelCase(r.Name), Array: r.Array != ""}
	switch {
	case strings.HasSuffix(r.Name, "_lat"):
		fs.Kind, fs.Base = KindLat, 0x85
	case strings.HasSuffix(r.Name, "_long"):
		fs.Kind, fs.Base = KindLng, 0x85
	case r.Type == "date_time":
		fs.Kind, fs.Base = KindTimeUTC, 0x86
	case r.Type == "local_date_time":
		fs.Kind, fs.Base = KindTimeLocal, 0x86
	case r.Type == "bool":
		fs.Base = 0x00
	default:
		if td, ok := types[r.Type]; ok {
			b, ok := baseCode[td.Base]
			if !ok {
				return fs, fmt.Errorf("type %s has unknown base type %q", r.Type, td.Base)
			}
			fs.Base = b
		} else if b, ok := baseCode[r.Type]; ok {
			fs.Base = b
		} else {
			return fs, fmt.Errorf("row %d: unknown type %q", r.Line, r.Type)
		}
	}
	fs.Length = 1
	switch {
	case r.Array == "N" || (fs.Base == 0x07 && fs.Kind == KindNative):
		n, err := strconv.Atoi(r.Example)
		if err != nil {
			f, ferr := strconv.ParseFloat(r.Example, 64)
			if ferr != nil {
				return fs, fmt.Errorf("row %d: example %q is not a length", r.Line, r.Example)
			}
			n = int(f)
		}
		fs.Length = n
	case r.Array != "":
		n, err := strconv.Atoi(r.Array)
		if err != nil {
			return fs, fmt.Errorf("row %d: array %q", r.Line, r.Array)
		}
		fs.Length = n
	}
	return fs, nil
}

// MesgNums returns message name -> global number from the mesg_num type.
func MesgNums(types map[string]*TypeDef) map[string]int {
	out := map[string]int{}
	td := types["mesg_num"]
	if td == nil {
		return out
	}
	for name, v := range td.Values {
		n, err := strconv.ParseInt(strings.TrimSpace(v), 0, 32)
		if err != nil {
			if f, ferr := strconv.ParseFloat(v, 64); ferr == nil {
				n = int64(f)
			} else {
				continue
			}
		}
		out[name] = int(n)
	}
	return out
}
