// Package wb is an independent reader (and EXAMPLE-column rewriter) for the
// FIT SDK profile workbook. It uses only archive/zip and encoding/xml — not
// the xlsx library the generator under test uses — and its own reading of the
// sheet layout, so that it can serve as an oracle for what fitgen must emit.
package wb

import (
	"archive/zip"
	"bytes"
	"encoding/xml"
	"fmt"
	"io"
	"os"
	"regexp"
	"sort"
	"strconv"
	"strings"
)

// Workbook holds the two sheets as sparse cell grids.
type Workbook struct {
	Path      string
	files     map[string][]byte
	order     []string
	msgsSheet string                    // zip path of the Messages sheet
	Types     map[int]map[string]string // row -> column letter -> text
	Msgs      map[int]map[string]string
}

type sst struct {
	SI []struct {
		T []string `xml:"t"`
		R []struct {
			T []string `xml:"t"`
		} `xml:"r"`
	} `xml:"si"`
}

type sheetXML struct {
	Rows []struct {
		R     int `xml:"r,attr"`
		Cells []struct {
			R  string `xml:"r,attr"`
			T  string `xml:"t,attr"`
			V  string `xml:"v"`
			IS struct {
				T string `xml:"t"`
			} `xml:"is"`
		} `xml:"c"`
	} `xml:"sheetData>row"`
}

type workbookXML struct {
	Sheets []struct {
		Name string `xml:"name,attr"`
		RID  string `xml:"http://schemas.openxmlformats.org/officeDocument/2006/relationships id,attr"`
	} `xml:"sheets>sheet"`
}

type relsXML struct {
	Rel []struct {
		ID     string `xml:"Id,attr"`
		Target string `xml:"Target,attr"`
	} `xml:"Relationship"`
}

// Open reads an .xlsx workbook.
func Open(path string) (*Workbook, error) {
	data, err := os.ReadFile(path)
	if err != nil {
		return nil, err
	}
	return OpenBytes(path, data)
}

// OpenBytes reads a workbook from memory.
func OpenBytes(path string, data []byte) (*Workbook, error) {
	zr, err := zip.NewReader(bytes.NewReader(data), int64(len(data)))
	if err != nil {
		return nil, err
	}
	w := &Workbook{Path: path, files: map[string][]byte{}}
	for _, f := range zr.File {
		rc, err := f.Open()
		if err != nil {
			return nil, err
		}
		b, err := io.ReadAll(rc)
		rc.Close()
		if err != nil {
			return nil, err
		}
		w.files[f.Name] = b
		w.order = append(w.order, f.Name)
	}
	var shared []string
	if b, ok := w.files["xl/sharedStrings.xml"]; ok {
		var s sst
		if err := xml.Unmarshal(b, &s); err != nil {
			return nil, fmt.Errorf("sharedStrings: %w", err)
		}
		for _, si := range s.SI {
			t := strings.Join(si.T, "")
			for _, r := range si.R {
				t += strings.Join(r.T, "")
			}
			shared = append(shared, t)
		}
	}
	var wbx workbookXML
	if err := xml.Unmarshal(w.files["xl/workbook.xml"], &wbx); err != nil {
		return nil, fmt.Errorf("workbook.xml: %w", err)
	}
	var rels relsXML
	if err := xml.Unmarshal(w.files["xl/_rels/workbook.xml.rels"], &rels); err != nil {
		return nil, fmt.Errorf("workbook rels: %w", err)
	}
	target := map[string]string{}
	for _, r := range rels.Rel {
		t := r.Target
		t = strings.TrimPrefix(t, "/")
		if !strings.HasPrefix(t, "xl/") {
			t = "xl/" + t
		}
		target[r.ID] = t
	}
	if len(wbx.Sheets) < 2 {
		return nil, fmt.Errorf("workbook has %d sheets", len(wbx.Sheets))
	}
	read := func(p string) (map[int]map[string]string, error) {
		b, ok := w.files[p]
		if !ok {
			return nil, fmt.Errorf("no sheet %s", p)
		}
		var sx sheetXML
		if err := xml.Unmarshal(b, &sx); err != nil {
			return nil, err
		}
		grid := map[int]map[string]string{}
		for _, r := range sx.Rows {
			row := map[string]string{}
			for _, c := range r.Cells {
				col := strings.TrimRight(c.R, "0123456789")
				v := c.V
				switch c.T {
				case "s":
					if strings.TrimSpace(c.V) == "" {
						v = ""
						break
					}
					i, err := strconv.Atoi(strings.TrimSpace(c.V))
					if err != nil || i < 0 || i >= len(shared) {
						return nil, fmt.Errorf("bad shared string index %q in %s", c.V, c.R)
					}
					v = shared[i]
				case "inlineStr":
					v = c.IS.T
				}
				v = strings.TrimSpace(v)
				if v != "" {
					row[col] = v
				}
			}
			if len(row) > 0 {
				grid[r.R] = row
			}
		}
		return grid, nil
	}
	// first sheet = Types, second = Messages (same order the generator uses)
	if w.Types, err = read(target[wbx.Sheets[0].RID]); err != nil {
		return nil, err
	}
	w.msgsSheet = target[wbx.Sheets[1].RID]
	if w.Msgs, err = read(w.msgsSheet); err != nil {
		return nil, err
	}
	return w, nil
}

// Row is one row of the Messages sheet that describes a field or a sub-field.
type Row struct {
	Line     int    // sheet row number
	Msg      string // message name (snake case)
	Sub      bool   // sub-field (dynamic field) row
	Parent   *Row   // for sub-fields: the field row they belong to
	Num      int    // field definition number (fields only)
	Name     string
	Type     string
	Array    string // "", "N" or a number
	Comps    []string
	Bits     []string
	Accum    []string
	RefNames []string
	RefVals  []string
	Example  string
	Enabled  bool
	Subs     []*Row
}

func splitList(s string) []string {
	if strings.TrimSpace(s) == "" {
		return nil
	}
	var out []string
	for _, p := range strings.Split(s, ",") {
		out = append(out, strings.TrimSpace(p))
	}
	return out
}

// Rows returns all field and sub-field rows in sheet order, and the message
// names in sheet order.
func (w *Workbook) Rows() (rows []*Row, msgs []string) {
	var lines []int
	for l := range w.Msgs {
		lines = append(lines, l)
	}
	sort.Ints(lines)
	cur := ""
	var lastField *Row
	for _, l := range lines {
		if l == 1 {
			continue // header
		}
		c := w.Msgs[l]
		if c["A"] != "" {
			if c["B"] == "" {
				cur = c["A"]
				msgs = append(msgs, cur)
				lastField = nil
			}
			continue
		}
		if cur == "" {
			continue
		}
		mk := func() *Row {
			r := &Row{Line: l, Msg: cur, Name: c["C"], Type: c["D"], Comps: splitList(c["F"]), Bits: splitList(c["J"]), Accum: splitList(c["K"]),
				RefNames: splitList(c["L"]), RefVals: splitList(c["M"]), Example: c["P"]}
			a := strings.Trim(c["E"], "[]")
			r.Array = a
			r.Enabled = r.Example != "" && r.Example != "0"
			return r
		}
		switch {
		case c["B"] != "":
			r := mk()
			n, err := strconv.Atoi(c["B"])
			if err != nil {
				f, ferr := strconv.ParseFloat(c["B"], 64)
				if ferr != nil {
					continue
				}
				n = int(f)
			}
			r.Num = n
			rows = append(rows, r)
			lastField = r
		case c["C"] != "" && lastField != nil:
			r := mk()
			r.Sub = true
			r.Parent = lastField
			lastField.Subs = append(lastField.Subs, r)
			rows = append(rows, r)
		}
	}
	return rows, msgs
}

// TypeDef is one entry of the Types sheet.
type TypeDef struct {
	Name   string
	Base   string
	Values map[string]string // value name -> value text
	Order  []string
}

// TypeDefs reads the Types sheet.
func (w *Workbook) TypeDefs() map[string]*TypeDef {
	var lines []int
	for l := range w.Types {
		lines = append(lines, l)
	}
	sort.Ints(lines)
	out := map[string]*TypeDef{}
	var cur *TypeDef
	for _, l := range lines {
		if l == 1 {
			continue
		}
		c := w.Types[l]
		if c["A"] != "" && c["C"] == "" {
			cur = &TypeDef{Name: c["A"], Base: c["B"], Values: map[string]string{}}
			out[cur.Name] = cur
			continue
		}
		if c["C"] != "" && cur != nil {
			cur.Values[c["C"]] = c["D"]
			cur.Order = append(cur.Order, c["C"])
		}
	}
	return out
}

// CamelCase converts snake_case to CamelCase the way Go identifiers for FIT
// names are formed (each underscore-separated chunk capitalised).
func CamelCase(s string) string {
	parts := strings.Split(s, "_")
	for i, p := range parts {
		if p == "" {
			continue
		}
		parts[i] = strings.ToUpper(p[:1]) + p[1:]
	}
	return strings.Join(parts, "")
}

// WriteDisabled writes a copy of the workbook in which the EXAMPLE cell
// (column P) of every listed Messages-sheet row is removed, which is how a
// product profile disables a field.
func (w *Workbook) WriteDisabled(path string, disable map[int]bool) error {
	sheet := string(w.files[w.msgsSheet])
	re := regexp.MustCompile(`<(?:\w+:)?c [^>]*\br="P(\d+)"(?:[^>]*/>|[^>]*>.*?</(?:\w+:)?c>)`)
	removed := map[int]bool{}
	sheet = re.ReplaceAllStringFunc(sheet, func(m string) string {
		sub := re.FindStringSubmatch(m)
		l, _ := strconv.Atoi(sub[1])
		if disable[l] {
			removed[l] = true
			// both ways a product profile disables a row: an empty
			// EXAMPLE cell (odd rows) and the value 0 (even rows)
			if l%2 == 0 {
				pre := ""
				if i := strings.Index(m, ":c "); i > 0 && i < 8 {
					pre = m[1 : i+1]
				}
				return `<` + pre + `c r="P` + sub[1] + `"><` + pre + `v>0</` + pre + `v></` + pre + `c>`
			}
			return ""
		}
		return m
	})
	for l := range disable {
		if !removed[l] {
			return fmt.Errorf("row %d has no EXAMPLE cell to remove", l)
		}
	}
	var buf bytes.Buffer
	zw := zip.NewWriter(&buf)
	for _, name := range w.order {
		fw, err := zw.Create(name)
		if err != nil {
			return err
		}
		b := w.files[name]
		if name == w.msgsSheet {
			b = []byte(sheet)
		}
		if _, err := fw.Write(b); err != nil {
			return err
		}
	}
	if err := zw.Close(); err != nil {
		return err
	}
	return os.WriteFile(path, buf.Bytes(), 0o644)
}

// WriteSDKZip wraps a workbook file into a FitSDKRelease style zip.
func WriteSDKZip(zipPath, xlsxPath string) error {
	b, err := os.ReadFile(xlsxPath)
	if err != nil {
		return err
	}
	var buf bytes.Buffer
	zw := zip.NewWriter(&buf)
	fw, err := zw.Create("FitSDK/Profile.xlsx")
	if err != nil {
		return err
	}
	fw.Write(b)
	if err := zw.Close(); err != nil {
		return err
	}
	return os.WriteFile(zipPath, buf.Bytes(), 0o644)
}
