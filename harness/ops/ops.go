//go:build verif

// Package ops holds the call vocabulary shared by the history (C08) and
// concurrency (C09) checks: a pool of inputs, the library calls made on them
// and a canonical description of what each call returned.
package ops

import (
	"bytes"
	"crypto/sha256"
	"encoding/binary"
	"encoding/hex"
	"errors"
	"fmt"
	"io"
	"log"
	"reflect"
	"runtime"
	"strings"
	"sync/atomic"
	"time"

	"github.com/tormoder/fit"
	"pgregory.net/rapid"

	"verif/fitmodel"
	"verif/gen"
	"verif/hx"
	"verif/prof"
)

// Pool is the fixed set of inputs a run works on.
type Pool struct {
	Bytes [][]byte        `json:"bytes"` // inputs for the decoding entry points
	Names []string        `json:"names"`
	Specs []*gen.FileSpec `json:"specs"` // Files for Encode
}

// Op is one library call.
type Op struct {
	Kind string `json:"kind"` // decode | decodeopts | chained | integrity | headerfileid | encode
	Idx  int    `json:"idx"`
	BE   bool   `json:"be,omitempty"`
}

func (o Op) String() string {
	if strings.HasPrefix(o.Kind, "encode") {
		return fmt.Sprintf("%s(%d,be=%v)", o.Kind, o.Idx, o.BE)
	}
	return fmt.Sprintf("%s(%d)", o.Kind, o.Idx)
}

// OpKinds lists the call kinds.
var OpKinds = []string{"decode", "decodeopts", "chained", "chainedopts", "chainedlog1", "chainedlog3", "decodelogger", "integrity", "header", "headerfileid", "decodefault", "encode", "encodebad", "encodefw", "encodeedit", "hdrintegrity", "decodescribble"}

// faultAts are the byte counts after which the reader of a "decodefault"
// call fails with an error of its own (inside the header after the size
// byte, at its end, inside the first records, later).
var faultAts = []int{1, 5, 9, 12, 13, 14, 17, 30, 64, 200}

type faultReader struct {
	data []byte
	at   int
	err  error
}

func (r *faultReader) Read(p []byte) (int, error) {
	if r.at == 0 {
		return 0, r.err
	}
	if len(r.data) == 0 {
		return 0, io.EOF
	}
	n := len(p)
	if n > r.at {
		n = r.at
	}
	n = copy(p[:n], r.data)
	r.data = r.data[n:]
	r.at -= n
	return n, nil
}

func skipK1(msg, field string) bool {
	return hx.Open("K1") && msg == "RecordMsg" && field == "Distance"
}

func digestFile(f *fit.File) string {
	return prof.Digest(f, prof.DigestOpts{Skip: skipK1})
}

func errText(err error) string {
	if err == nil {
		return "<nil>"
	}
	return err.Error()
}

// Run executes op and returns a canonical description of everything the call
// returned. state, if non-nil, supplies already-built Files so that "encode
// the same object again" is possible.
// Verdict returns the part of a call's result that is wrong whatever a
// baseline says (a marker line written in capitals by the call itself: the
// File changed after the call had returned, an edited File encoded other
// bytes than an equal fresh one, the call did not return, ...), or "".
func Verdict(raw string) string {
	for _, line := range strings.Split(raw, "\n") {
		if strings.HasPrefix(line, "THE ") || strings.HasPrefix(line, "File.CRC CHANGED") {
			return line
		}
	}
	return ""
}

// HistoryKinds are the call kinds of sequential histories: OpKinds plus calls
// that cannot be mixed into concurrent programs.
var HistoryKinds = append(append([]string{}, OpKinds...), "loggerpanic", "loggerafter")

// Run executes op under a deadline: a call that does not return is an
// outcome like any other (and differs from every baseline).
func Run(p *Pool, op Op, files map[int]*fit.File) string {
	done := make(chan string, 1)
	go func() { done <- runOp(p, op, files) }()
	tm := time.NewTimer(20 * time.Second)
	defer tm.Stop()
	select {
	case r := <-done:
		return r
	case <-tm.C:
		return "THE CALL HAS NOT RETURNED after 20 s"
	}
}

// switchLogger discards what it is given; when armed, its next Println does
// not return (it panics), once.
type switchLogger struct{ armed atomic.Bool }

func (l *switchLogger) Println(v ...interface{}) {
	if l.armed.CompareAndSwap(true, false) {
		panic("verif: this logger fails once")
	}
}
func (l *switchLogger) Print(v ...interface{}) { l.Println(v...) }
func (l *switchLogger) Printf(format string, v ...interface{}) {
	if l.armed.CompareAndSwap(true, false) {
		panic("verif: this logger fails once")
	}
}

var sharedSwitch = &switchLogger{}

var sharedSwitchOpt = fit.WithLogger(sharedSwitch)

func runOp(p *Pool, op Op, files map[int]*fit.File) (res string) {
	defer func() {
		if r := recover(); r != nil {
			res = fmt.Sprintf("PANIC: %v", r)
		}
	}()
	switch op.Kind {
	case "decode":
		f, err := fit.Decode(bytes.NewReader(p.Bytes[op.Idx]))
		return "err=" + errText(err) + "\n" + digestFile(f)
	case "decodeopts":
		// the option values are shared by every call (a package-level
		// options slice is the natural way to use them)
		f, err := fit.Decode(bytes.NewReader(p.Bytes[op.Idx]), sharedOpts...)
		return "err=" + errText(err) + "\n" + digestFile(f)
	case "chained":
		fs, err := fit.DecodeChained(bytes.NewReader(p.Bytes[op.Idx]))
		var sb strings.Builder
		fmt.Fprintf(&sb, "err=%s n=%d\n", errText(err), len(fs))
		for _, f := range fs {
			sb.WriteString(digestFile(f))
			sb.WriteString("--\n")
		}
		return sb.String()
	case "chainedopts":
		// options given to DecodeChained (the same shared option values)
		fs, err := fit.DecodeChained(bytes.NewReader(p.Bytes[op.Idx]), sharedOpts...)
		var sb strings.Builder
		fmt.Fprintf(&sb, "err=%s n=%d\n", errText(err), len(fs))
		for _, f := range fs {
			sb.WriteString(digestFile(f))
			sb.WriteString("--\n")
		}
		return sb.String()
	case "chainedlog1", "chainedlog3":
		// the caller keeps its options in one slice with room to grow and
		// passes a prefix of it: the logger alone, or the logger and both
		// tallies. The callee owns neither the slice nor its spare capacity.
		n := 1
		if op.Kind == "chainedlog3" {
			n = 3
		}
		fs, err := fit.DecodeChained(bytes.NewReader(p.Bytes[op.Idx]), sharedLogOpts[:n]...)
		var sb strings.Builder
		fmt.Fprintf(&sb, "err=%s n=%d\n", errText(err), len(fs))
		for _, f := range fs {
			sb.WriteString(digestFile(f))
			sb.WriteString("--\n")
		}
		return sb.String()
	case "loggerpanic", "loggerafter":
		// one WithLogger option value kept for the life of the process. In
		// "loggerpanic" its logger does not return from its first call (it
		// panics; the caller recovers, as a request handler does);
		// afterwards the same option value is used again with the logger
		// behaving.
		if op.Kind == "loggerpanic" {
			sharedSwitch.armed.Store(true)
		}
		panicked := false
		var f *fit.File
		var err error
		func() {
			defer func() {
				if recover() != nil {
					panicked = true
				}
			}()
			f, err = fit.Decode(bytes.NewReader(p.Bytes[op.Idx]), sharedSwitchOpt)
		}()
		sharedSwitch.armed.Store(false)
		if op.Kind == "loggerpanic" {
			// and right away the same input with the same option value
			f2, err2 := fit.Decode(bytes.NewReader(p.Bytes[op.Idx]), sharedSwitchOpt)
			return fmt.Sprintf("logger-panicked=%v\nthen err=%s\n", panicked, errText(err2)) + digestFile(f2)
		}
		return "err=" + errText(err) + "\n" + digestFile(f)
	case "decodelogger":
		// a debug logger (its output is discarded; what Decode returns is compared)
		f, err := fit.Decode(bytes.NewReader(p.Bytes[op.Idx]), fit.WithLogger(log.New(io.Discard, "", 0)))
		return "err=" + errText(err) + "\n" + digestFile(f)
	case "decodefault":
		// a reader that fails with an error of its own, different for every
		// input: what the call reports must be about this reader
		cause := fmt.Errorf("verif: reader fault on input %d", op.Idx)
		f, err := fit.Decode(&faultReader{data: p.Bytes[op.Idx], at: faultAts[op.Idx%len(faultAts)], err: cause})
		res := fmt.Sprintf("err=%s is-cause=%v is-unexpected-eof=%v\n", errText(err), errors.Is(err, cause), errors.Is(err, io.ErrUnexpectedEOF)) + digestFile(f)
		// the error value must still say the same once other calls have run
		runtime.Gosched()
		if again := errText(err); !strings.HasPrefix(res, "err="+again+" ") {
			res += "\nerror text changed after return: " + again
		}
		return res
	case "decodescribble":
		// the caller owns the File Decode returned: it overwrites and grows
		// every byte array in it, then decodes the same input again. The
		// second File is what the first one was.
		f1, err1 := fit.Decode(bytes.NewReader(p.Bytes[op.Idx]))
		before := "err=" + errText(err1) + "\n" + digestFile(f1)
		if f1 != nil {
			prof.ScribbleByteArrays(f1)
		}
		f2, err2 := fit.Decode(bytes.NewReader(p.Bytes[op.Idx]))
		after := "err=" + errText(err2) + "\n" + digestFile(f2)
		if after != before {
			return before + "\nTHE SAME INPUT DECODES TO ANOTHER FILE AFTER THE CALLER HAS WRITTEN INTO THE BYTE ARRAYS OF THE FIRST RESULT"
		}
		return before
	case "hdrintegrity":
		// the method on the Header value DecodeHeader returns (and on a copy
		// whose stored CRC is off by one)
		h, err := fit.DecodeHeader(bytes.NewReader(p.Bytes[op.Idx]))
		if err != nil {
			return "err=" + errText(err)
		}
		bad := h
		bad.CRC++
		return fmt.Sprintf("hdr=%v integrity=%s off-by-one=%s", h, errText(h.CheckIntegrity()), errText(bad.CheckIntegrity()))
	case "integrity":
		return "err=" + errText(fit.CheckIntegrity(bytes.NewReader(p.Bytes[op.Idx]), false)) + " hdr=" + errText(fit.CheckIntegrity(bytes.NewReader(p.Bytes[op.Idx]), true))
	case "header":
		h, err := fit.DecodeHeader(bytes.NewReader(p.Bytes[op.Idx]))
		return fmt.Sprintf("err=%s hdr=%v size=%d proto=%d profile=%d data=%d type=%q crc=%d", errText(err), h, h.Size, h.ProtocolVersion, h.ProfileVersion, h.DataSize, string(h.DataType[:]), h.CRC)
	case "headerfileid":
		h, id, err := fit.DecodeHeaderAndFileID(bytes.NewReader(p.Bytes[op.Idx]))
		return fmt.Sprintf("err=%s hdr=%v id=%v", errText(err), h, prof.MsgVals(reflect.ValueOf(id)))
	case "encode":
		var f *fit.File
		if files != nil && files[op.Idx] != nil {
			f = files[op.Idx]
		} else {
			var err error
			f, err = gen.BuildFile(p.Specs[op.Idx])
			if err != nil {
				return "HARNESS build: " + err.Error()
			}
			if files != nil {
				files[op.Idx] = f
			}
		}
		var buf bytes.Buffer
		ord := binary.ByteOrder(binary.LittleEndian)
		if op.BE {
			ord = binary.BigEndian
		}
		err := fit.Encode(&buf, f, ord)
		res := fmt.Sprintf("err=%s bytes=%s hdr=%v crc=%d", errText(err), hex.EncodeToString(buf.Bytes()), f.Header, f.CRC)
		if msg := prof.SpareIntact(f); msg != "" {
			// judged by the caller whatever the baseline says
			res += "\nOUTSIDE-THE-FILE: " + msg
		}
		return res
	case "encodeedit":
		// a File is encoded, edited in place (a field set that none of the
		// messages of its group carried before) and encoded again: the
		// second output is what a first Encode of an equal File writes
		ord := binary.ByteOrder(binary.LittleEndian)
		if op.BE {
			ord = binary.BigEndian
		}
		f, err := gen.BuildFile(p.Specs[op.Idx])
		if err != nil {
			return "HARNESS build: " + err.Error()
		}
		var first, second, fresh bytes.Buffer
		if err := fit.Encode(&first, f, ord); err != nil {
			return "first err=" + errText(err)
		}
		what := prof.EditInPlace(f)
		err = fit.Encode(&second, f, ord)
		res := fmt.Sprintf("edited=%s err=%s bytes=%s", what, errText(err), Hash(hex.EncodeToString(second.Bytes())))
		if g, err2 := gen.BuildFile(p.Specs[op.Idx]); err2 == nil && err == nil {
			prof.EditInPlace(g)
			if fit.Encode(&fresh, g, ord) == nil && !bytes.Equal(second.Bytes(), fresh.Bytes()) {
				res += "\nTHE ENCODE OF THE EDITED FILE DIFFERS FROM A FIRST ENCODE OF AN EQUAL FILE"
			}
		}
		return res
	case "encodebad":
		// an Encode call that fails part-way: a string that is not UTF-8
		f, err := gen.BuildFile(p.Specs[op.Idx])
		if err != nil {
			return "HARNESS build: " + err.Error()
		}
		f.FileId.ProductName = "\xff\xfeab"
		var buf bytes.Buffer
		ord := binary.ByteOrder(binary.LittleEndian)
		if op.BE {
			ord = binary.BigEndian
		}
		err = fit.Encode(&buf, f, ord)
		return fmt.Sprintf("err=%s written=%d", errText(err), buf.Len())
	case "encodefw":
		// an Encode call whose writer refuses the data after a few bytes
		f, err := gen.BuildFile(p.Specs[op.Idx])
		if err != nil {
			return "HARNESS build: " + err.Error()
		}
		w := &failingWriter{limit: 5 + 9*op.Idx}
		ord := binary.ByteOrder(binary.LittleEndian)
		if op.BE {
			ord = binary.BigEndian
		}
		err = fit.Encode(w, f, ord)
		res := fmt.Sprintf("err=%s accepted=%s", errText(err), hex.EncodeToString(w.buf.Bytes()))
		// the call has returned: the File is the caller's again. It looks at
		// it, a moment later looks again, then retries on a writer that works
		snap := func() string {
			return fmt.Sprintf("crc=%#04x hdr=%v\n", f.CRC, f.Header) + prof.FileValues(f)
		}
		first := snap()
		for i := 0; i < 100; i++ {
			runtime.Gosched()
		}
		time.Sleep(2 * time.Millisecond)
		if second := snap(); second != first {
			res += "\nTHE FILE CHANGED AFTER THE FAILED CALL HAD RETURNED (nobody was using it)"
		}
		var retry, fresh bytes.Buffer
		rerr := fit.Encode(&retry, f, ord)
		if f2, err2 := gen.BuildFile(p.Specs[op.Idx]); err2 == nil && rerr == nil {
			if fit.Encode(&fresh, f2, ord) == nil && !bytes.Equal(retry.Bytes(), fresh.Bytes()) {
				res += "\nTHE RETRY ON A WORKING WRITER WROTE OTHER BYTES THAN A FIRST ENCODE OF AN EQUAL FILE"
			}
		}
		crcAfter := f.CRC
		time.Sleep(2 * time.Millisecond)
		if f.CRC != crcAfter {
			res += "\nFile.CRC CHANGED AFTER THE RETRY HAD RETURNED"
		}
		return res + fmt.Sprintf("\nretry err=%s", errText(rerr))
	}
	return "unknown op"
}

var sharedOpts = append(make([]fit.DecodeOption, 0, 8), fit.WithUnknownFields(), fit.WithUnknownMessages())

var sharedLogOpts = append(make([]fit.DecodeOption, 0, 8), fit.WithLogger(log.New(io.Discard, "", 0)), fit.WithUnknownFields(), fit.WithUnknownMessages())

type failingWriter struct {
	buf   bytes.Buffer
	limit int
}

func (w *failingWriter) Write(p []byte) (int, error) {
	if w.buf.Len()+len(p) > w.limit {
		n := w.limit - w.buf.Len()
		if n < 0 {
			n = 0
		}
		w.buf.Write(p[:n])
		return n, fmt.Errorf("verif: writer full")
	}
	return w.buf.Write(p)
}

func Hash(s string) string {
	h := sha256.Sum256([]byte(s))
	return hex.EncodeToString(h[:8])
}

func Valid(p *Pool, op Op) bool {
	if strings.HasPrefix(op.Kind, "encode") {
		return op.Idx >= 0 && op.Idx < len(p.Specs)
	}
	return op.Idx >= 0 && op.Idx < len(p.Bytes)
}

// BuildPool draws the pool for a seed.
func BuildPool(seed int) *Pool {
	g := rapid.Custom(func(rt *rapid.T) *Pool {
		d := gen.D{T: rt}
		p := &Pool{}
		for _, cf := range gen.SmallCorpus(6000) {
			p.Bytes = append(p.Bytes, cf.Data)
			p.Names = append(p.Names, cf.Name)
		}
		for i := 0; i < 16; i++ {
			o := gen.DefaultStreamOpts()
			o.MaxRecs = 14
			s, _ := gen.GenStream(d, o)
			p.Bytes = append(p.Bytes, s.Bytes())
			p.Names = append(p.Names, "generated stream")
		}
		// inputs every entry point rejects, at each stage: cut inside the
		// header (after a legal size byte), at its end, inside the records,
		// inside the trailing CRC; an illegal size byte; a wrong CRC
		for _, hs := range []byte{12, 14} {
			s := &fitmodel.Stream{HeaderSize: hs, Proto: 0x20, Recs: []fitmodel.Rec{
				{IsDef: true, Global: 0, Fields: []fitmodel.FieldDef{{Num: 0, Size: 1, Base: 0}}}, {Raw: []byte{4}},
				{IsDef: true, Local: 1, Global: 20, Fields: []fitmodel.FieldDef{{Num: 253, Size: 4, Base: 0x86}}},
				{Local: 1, Raw: []byte{1, 2, 3, 4}},
			}}
			whole := s.Bytes()
			for _, n := range []int{0, 1, 5, int(hs) - 1, int(hs), int(hs) + 3, len(whole) - 3, len(whole) - 1} {
				p.Bytes = append(p.Bytes, append([]byte(nil), whole[:n]...))
				p.Names = append(p.Names, fmt.Sprintf("%d-byte-header file cut after %d bytes", hs, n))
			}
			bad := append([]byte(nil), whole...)
			bad[0] = 13
			p.Bytes = append(p.Bytes, bad)
			p.Names = append(p.Names, "illegal header size byte")
			bad = append([]byte(nil), whole...)
			bad[len(bad)-1] ^= 0x5A
			p.Bytes = append(p.Bytes, bad)
			p.Names = append(p.Names, "wrong file CRC")
		}
		// twins: a definition that the profile rules out for a known message
		// (a one-byte field declared as uint32), and the same definition for
		// unknown messages whose numbers differ from it by 256 and by 0xFF00
		// (accepted: nothing is known about them). Whatever a process
		// remembers about definitions must not carry from one to the other.
		tab := prof.Table()
		for _, m := range []uint16{20, 18, 34, 21, 0} {
			mi := tab.Msgs[m]
			if mi == nil {
				continue
			}
			var fd *fitmodel.FieldDef
			for _, n := range prof.FieldNums(m) {
				fi := mi.Fields[n]
				if bt := fitmodel.MustBase(fi.Base); bt.Size == 1 && !fi.Array && !bt.String && !(m == 0 && n == 0) {
					fd = &fitmodel.FieldDef{Num: n, Size: 4, Base: 0x86}
					break
				}
			}
			if fd == nil {
				continue
			}
			for _, g := range []uint16{m + 256, m + 0xFF00, m} {
				if g != m && tab.Msgs[g] != nil {
					continue
				}
				s := &fitmodel.Stream{HeaderSize: 12, Proto: 0x20, Recs: []fitmodel.Rec{
					{IsDef: true, Global: 0, Fields: []fitmodel.FieldDef{{Num: 0, Size: 1, Base: 0}}}, {Raw: []byte{4}},
					{IsDef: true, Local: 1, Global: g, Fields: []fitmodel.FieldDef{*fd}},
					{Local: 1, Raw: []byte{150, 0, 0, 0}},
				}}
				p.Bytes = append(p.Bytes, s.Bytes())
				p.Names = append(p.Names, fmt.Sprintf("twin definition: message %d field %d declared uint32", g, fd.Num))
			}
		}
		// streams with component accumulation (history-sensitive state)
		for i := 0; i < 4; i++ {
			s := &fitmodel.Stream{HeaderSize: 12, Proto: 0x20, Recs: []fitmodel.Rec{
				{IsDef: true, Global: 0, Fields: []fitmodel.FieldDef{{Num: 0, Size: 1, Base: 0}}}, {Raw: []byte{4}},
				{IsDef: true, Local: 1, Global: 20, Fields: []fitmodel.FieldDef{{Num: 8, Size: 3, Base: 0x0D}, {Num: 18, Size: 1, Base: 2}, {Num: 28, Size: 2, Base: 0x84}}},
			}}
			for j := 0; j < 3; j++ {
				s.Recs = append(s.Recs, fitmodel.Rec{Local: 1, Raw: d.Bytes(6, "acc")})
			}
			p.Bytes = append(p.Bytes, s.Bytes())
			p.Names = append(p.Names, "accumulating stream")
		}
		// local timestamps whose zone offsets differ by less than a minute,
		// a second, an hour (anything cached per process by a lossy key
		// would show when these are decoded one after another)
		for _, off := range []int64{7200, 7230, 7201, 7259, -3600, -3601, 0, 1} {
			ref := uint64(0x3B9ACA00)
			s := &fitmodel.Stream{HeaderSize: 12, Proto: 0x20, Recs: []fitmodel.Rec{
				{IsDef: true, Global: 0, Fields: []fitmodel.FieldDef{{Num: 0, Size: 1, Base: 0}}}, {Raw: []byte{4}},
				{IsDef: true, Local: 1, Global: 20, Fields: []fitmodel.FieldDef{{Num: 253, Size: 4, Base: 0x86}}},
				{Local: 1, Raw: fitmodel.PutWireUint(ref, 4, false)},
				{IsDef: true, Local: 2, Global: 34, Fields: []fitmodel.FieldDef{{Num: 253, Size: 4, Base: 0x86}, {Num: 5, Size: 4, Base: 0x86}}},
				{Local: 2, Raw: append(fitmodel.PutWireUint(ref, 4, false), fitmodel.PutWireUint(uint64(int64(ref)+off), 4, false)...)},
			}}
			p.Bytes = append(p.Bytes, s.Bytes())
			p.Names = append(p.Names, fmt.Sprintf("local timestamp, zone offset %d s", off))
		}
		// chained inputs
		for i := 0; i < 4; i++ {
			var b []byte
			for k := d.Int(2, 3, "nch"); k > 0; k-- {
				b = append(b, p.Bytes[d.Int(0, len(p.Bytes)-1, "chi")]...)
			}
			p.Bytes = append(p.Bytes, b)
			p.Names = append(p.Names, "chain")
		}
		for i := 0; i < 12; i++ {
			o := gen.DefaultFileOpts()
			o.MaxMsgs = 3
			o.LongSlots = false
			// half of the Files carry values outside the round-trip domain
			// (arrays and strings longer than the profile length)
			o.OutDomain = i%2 == 1
			if o.OutDomain {
				o.FieldPct = 45
			}
			p.Specs = append(p.Specs, gen.GenFile(d, o))
		}
		// local times in the same tz-database Locations on both sides of a
		// daylight-saving change (prof.Location hands out one *time.Location
		// per name, as a program that loads its zone once does)
		for _, zone := range []string{"Europe/Oslo", "America/New_York"} {
			for _, unix := range []int64{1610712000, 1626350400} { // 2021-01-15, 2021-07-15 12:00 UTC
				off := 0
				if loc := prof.Location(zone); loc != nil {
					_, off = time.Unix(unix, 0).In(loc).Zone()
				}
				lt := fitmodel.T(unix, off)
				lt.S = "tz:" + zone
				p.Specs = append(p.Specs, &gen.FileSpec{Type: 4, Proto: 0x20, HdrCRC: true, FileId: gen.MsgSpec{Fields: map[string]fitmodel.Val{}},
					Slots: []gen.SlotSpec{{Name: "Activity", Msgs: []gen.MsgSpec{{Global: 34, Fields: map[string]fitmodel.Val{
						"Timestamp": fitmodel.T(unix, 0), "LocalTimestamp": lt, "NumSessions": fitmodel.U(1)}}}}}})
			}
		}
		// byte-array fields longer and shorter than their profile length in
		// the same pool (anything that adapts shared tables to the data
		// would show between these)
		// an array shorter than its profile length (speed_1s: 5), so that the
		// encoder has to pad it
		p.Specs = append(p.Specs, &gen.FileSpec{Type: 4, Proto: 0x20, FileId: gen.MsgSpec{Fields: map[string]fitmodel.Val{}},
			Slots: []gen.SlotSpec{{Name: "Records", Msgs: []gen.MsgSpec{
				{Global: 20, Fields: map[string]fitmodel.Val{"Speed1s": fitmodel.Arr([]fitmodel.Val{fitmodel.U(10), fitmodel.U(11), fitmodel.U(12)})}},
				{Global: 20, Fields: map[string]fitmodel.Val{"Speed1s": fitmodel.Arr([]fitmodel.Val{fitmodel.U(20)}), "HeartRate": fitmodel.U(99)}},
			}}}})
		for _, n := range []int{1, 12, 3} {
			elems := make([]fitmodel.Val, n)
			for i := range elems {
				elems[i] = fitmodel.U(uint64(i + 1))
			}
			p.Specs = append(p.Specs, &gen.FileSpec{Type: 4, Proto: 0x20, FileId: gen.MsgSpec{Fields: map[string]fitmodel.Val{}},
				Slots: []gen.SlotSpec{{Name: "Hrs", Msgs: []gen.MsgSpec{{Global: 132, Fields: map[string]fitmodel.Val{"EventTimestamp12": fitmodel.Arr(elems)}}}}}})
		}
		// strings longer than, exactly at and shorter than their profile
		// length in messages of the same type (file_id.product_name: 20,
		// sport.name: 16), valid UTF-8 throughout
		for _, name := range []string{"a product name that is much longer than twenty bytes", "exactly twenty bytes", "short"} {
			p.Specs = append(p.Specs, &gen.FileSpec{Type: 4, Proto: 0x20, HdrCRC: len(name)%2 == 0,
				FileId: gen.MsgSpec{Fields: map[string]fitmodel.Val{"ProductName": fitmodel.S(name)}},
				Slots:  []gen.SlotSpec{{Name: "Sport", Msgs: []gen.MsgSpec{{Global: 12, Fields: map[string]fitmodel.Val{"Name": fitmodel.S(name)}}}}}})
		}
		// compressed-timestamp records of messages that have no timestamp
		// field (file_creator, an unknown message) after a reference
		// timestamp, and a plain twin of the same stream
		for _, compressed := range []bool{true, false} {
			s := &fitmodel.Stream{HeaderSize: 12, Proto: 0x20, Recs: []fitmodel.Rec{
				{IsDef: true, Global: 0, Fields: []fitmodel.FieldDef{{Num: 0, Size: 1, Base: 0}}}, {Raw: []byte{4}},
				{IsDef: true, Local: 1, Global: 20, Fields: []fitmodel.FieldDef{{Num: 253, Size: 4, Base: 0x86}, {Num: 3, Size: 1, Base: 2}}},
				{Local: 1, Raw: []byte{0x20, 0xCA, 0x9A, 0x3B, 90}},
				{IsDef: true, Local: 2, Global: 49, Fields: []fitmodel.FieldDef{{Num: 0, Size: 2, Base: 0x84}}},
				{IsDef: true, Local: 3, Global: 0xFF42, Fields: []fitmodel.FieldDef{{Num: 1, Size: 1, Base: 2}}},
				{Local: 2, Compressed: compressed, TimeOffset: 5, Raw: []byte{7, 0}},
				{Local: 3, Compressed: compressed, TimeOffset: 9, Raw: []byte{1}},
				{Local: 2, Compressed: compressed, TimeOffset: 11, Raw: []byte{8, 0}},
				{Local: 1, Raw: []byte{0x40, 0xCA, 0x9A, 0x3B, 91}},
			}}
			p.Bytes = append(p.Bytes, s.Bytes())
			p.Names = append(p.Names, "compressed headers on messages without a timestamp field")
		}
		// byte arrays that hold the invalid pattern (all 0xFF, what a device
		// writes for a byte array it does not support) next to ones that
		// hold data, for every message with a byte-array field
		{
			s := &fitmodel.Stream{HeaderSize: 12, Proto: 0x20, Recs: []fitmodel.Rec{
				{IsDef: true, Global: 0, Fields: []fitmodel.FieldDef{{Num: 0, Size: 1, Base: 0}}}, {Raw: []byte{4}},
			}}
			l := byte(1)
			for _, g := range prof.MsgNums() {
				mi := tab.Msgs[g]
				for _, n := range prof.FieldNums(g) {
					fi := mi.Fields[n]
					if fi.Base != 0x0D || !fi.Array || g == 20 {
						continue // (record: its byte array feeds the accumulators)
					}
					size := fi.Length
					if size < 1 || size > 16 {
						size = 6
					}
					s.Recs = append(s.Recs, fitmodel.Rec{IsDef: true, Local: l, Global: g, Fields: []fitmodel.FieldDef{{Num: n, Size: byte(size), Base: 0x0D}}},
						fitmodel.Rec{Local: l, Raw: bytes.Repeat([]byte{0xFF}, size)},
						fitmodel.Rec{Local: l, Raw: bytes.Repeat([]byte{0x11}, size)},
						fitmodel.Rec{Local: l, Raw: bytes.Repeat([]byte{0xFF}, size)})
					l = l%15 + 1
					break
				}
			}
			p.Bytes = append(p.Bytes, s.Bytes())
			p.Names = append(p.Names, "byte arrays holding the invalid pattern")
		}
		return p
	})
	return g.Example(seed)
}
