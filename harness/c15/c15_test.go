//go:build verif

package c15

import (
	"bytes"
	"encoding/binary"
	"encoding/json"
	"fmt"
	"path/filepath"
	"reflect"
	"testing"
	"time"

	"github.com/tormoder/fit"

	"verif/fitmodel"
	"verif/hx"
	"verif/oracle"
	"verif/prof"
	"verif/wb"
)

type entryCase struct {
	Mesg  int    `json:"mesg"`
	Field int    `json:"field"`
	Check string `json:"check"`
}

var (
	timeType = reflect.TypeOf(time.Time{})
	latType  = reflect.TypeOf(fit.Latitude{})
	lngType  = reflect.TypeOf(fit.Longitude{})
)

// modelKind is the reflect.Kind a field of base type bt must have.
func modelKind(bt fitmodel.BaseType) reflect.Kind {
	switch {
	case bt.String:
		return reflect.String
	case bt.Float && bt.Size == 4:
		return reflect.Float32
	case bt.Float:
		return reflect.Float64
	case bt.Signed:
		return []reflect.Kind{0, reflect.Int8, reflect.Int16, 0, reflect.Int32, 0, 0, 0, reflect.Int64}[bt.Size]
	default:
		return []reflect.Kind{0, reflect.Uint8, reflect.Uint16, 0, reflect.Uint32, 0, 0, 0, reflect.Uint64}[bt.Size]
	}
}

func checkTypeMatches(ft reflect.Type, f fit.VerifField) string {
	bt, ok := fitmodel.Base(f.Base)
	if !ok {
		return fmt.Sprintf("base type byte %#02x is not a FIT base type", f.Base)
	}
	want := func(t reflect.Type) string {
		switch f.Kind {
		case fitmodel.KindTimeUTC, fitmodel.KindTimeLocal:
			if bt.Code != 0x86 {
				return fmt.Sprintf("time kind with base type %s (want uint32)", bt.Name)
			}
			if t != timeType {
				return fmt.Sprintf("Go type %v, want time.Time", t)
			}
		case fitmodel.KindLat:
			if bt.Code != 0x85 {
				return fmt.Sprintf("latitude kind with base type %s (want sint32)", bt.Name)
			}
			if t != latType {
				return fmt.Sprintf("Go type %v, want fit.Latitude", t)
			}
		case fitmodel.KindLng:
			if bt.Code != 0x85 {
				return fmt.Sprintf("longitude kind with base type %s (want sint32)", bt.Name)
			}
			if t != lngType {
				return fmt.Sprintf("Go type %v, want fit.Longitude", t)
			}
		case fitmodel.KindNative:
			if t.Kind() != modelKind(bt) {
				return fmt.Sprintf("Go kind %v, base type %s needs %v", t.Kind(), bt.Name, modelKind(bt))
			}
		default:
			return fmt.Sprintf("unknown kind %d", f.Kind)
		}
		return ""
	}
	if f.Array {
		if ft.Kind() != reflect.Slice {
			return fmt.Sprintf("array flag set but Go type is %v", ft)
		}
		return want(ft.Elem())
	}
	if ft.Kind() == reflect.Slice {
		return fmt.Sprintf("Go type %v is a slice but the array flag is not set", ft)
	}
	return want(ft)
}

func TestC15(t *testing.T) {
	hx.Main(t, "C15", func(rec *hx.Recorder) {
		if _, ok := hx.LoadReplay(); ok {
			// every case is a cell of the deterministic enumeration: replay = rerun
			rec.Note("replay re-runs the whole (deterministic) enumeration")
		}
		fail := func(m, f int, check, msg string) {
			rec.Fail("tables", "", fmt.Sprintf("message %d field %d: %s: %s", m, f, check, msg), entryCase{m, f, check})
		}

		// 1. every lookup that finds a field belongs to a known message
		n := int64(0)
		nf, nt, nn := fit.VerifTableLens()
		for m := 0; m < 65536; m++ {
			for f := 0; f < 256; f++ {
				n++
				if _, ok := fit.VerifGetField(fit.MesgNum(m), byte(f)); ok && !fit.VerifIsKnown(fit.MesgNum(m)) {
					fail(m, f, "lookup", "getField finds an entry but the message is not in knownMsgNums")
				}
			}
		}
		rec.Eval("lookups", n)
		rec.Exhaustive("all 65536 message numbers x 256 field numbers through getField")

		// 2. known messages: type, constructor, reverse lookup
		known, falseEntries := fit.VerifKnownMesgNums()
		for _, m := range falseEntries {
			rec.Note(fmt.Sprintf("knownMsgNums has a false entry for %d", m))
		}
		entries := fit.VerifFields()
		byMsg := map[fit.MesgNum][]fit.VerifField{}
		for _, e := range entries {
			byMsg[e.Mesg] = append(byMsg[e.Mesg], e)
		}
		cells := int64(0)
		for _, m := range known {
			mi := int(m)
			if mi >= nf {
				fail(mi, -1, "known", fmt.Sprintf("known message number beyond the lookup table (len %d): every field lookup misses", nf))
			}
			typ := fit.VerifMesgType(m)
			if typ == nil || mi >= nt {
				fail(mi, -1, "known", "known message without a Go type in msgsTypes (decoder would call a nil constructor / reflect on nil)")
				continue
			}
			if !fit.VerifHasNewFunc(m) || mi >= nn {
				fail(mi, -1, "known", "known message without an all-invalid constructor")
				continue
			}
			var v reflect.Value
			if p := oracle.Catch(func() { v = fit.VerifMesgAllInvalid(m) }); p != nil {
				fail(mi, -1, "constructor", fmt.Sprintf("panic: %v", p))
				continue
			}
			if v.Type() != typ {
				fail(mi, -1, "constructor", fmt.Sprintf("constructor returns %v, msgsTypes says %v", v.Type(), typ))
				continue
			}
			if back := fit.VerifGlobalMesgNum(typ); back != m {
				fail(mi, -1, "reverse", fmt.Sprintf("getGlobalMesgNum(%v)=%d", typ, back))
			}
			// 3. entries
			seen := map[int]byte{}
			for _, e := range byMsg[m] {
				cells++
				fi := int(e.Num)
				if e.ENum != e.Num {
					fail(mi, fi, "num", fmt.Sprintf("entry at index %d says num %d", e.Num, e.ENum))
				}
				if e.SIndex < 0 || e.SIndex >= typ.NumField() {
					fail(mi, fi, "sindex", fmt.Sprintf("struct index %d out of range for %v (%d fields)", e.SIndex, typ, typ.NumField()))
					continue
				}
				if other, dup := seen[e.SIndex]; dup {
					fail(mi, fi, "sindex", fmt.Sprintf("struct index %d (%s) is also used by field %d", e.SIndex, typ.Field(e.SIndex).Name, other))
				}
				seen[e.SIndex] = e.Num
				sf := typ.Field(e.SIndex)
				if msg := checkTypeMatches(sf.Type, e); msg != "" {
					fail(mi, fi, "gotype", fmt.Sprintf("%s.%s: %s", typ.Name(), sf.Name, msg))
					continue
				}
				bt := fitmodel.MustBase(e.Base)
				if e.Length < 1 {
					fail(mi, fi, "length", "length 0")
				}
				size := int(e.Length)
				if !bt.String {
					if !e.Array && e.Length != 1 {
						fail(mi, fi, "length", fmt.Sprintf("non-array field with length %d", e.Length))
					}
					size = bt.Size * int(e.Length)
				}
				if size > 255 {
					fail(mi, fi, "size", fmt.Sprintf("encoded size %d does not fit the one-byte size of a field definition", size))
				}
				// constructor value = model invalid
				minfo := &fitmodel.FieldInfo{Num: e.Num, SIndex: e.SIndex, Kind: int(e.Kind), Base: e.Base, Array: e.Array, Length: int(e.Length)}
				got := prof.FromReflect(v.Field(e.SIndex))
				if want := fitmodel.InvalidVal(minfo); !got.Equal(want) {
					fail(mi, fi, "invalid", fmt.Sprintf("%s.%s is initialised to %s, the invalid value of its type is %s", typ.Name(), sf.Name, got, want))
				}
			}
			for i := 0; i < typ.NumField(); i++ {
				if _, ok := seen[i]; !ok {
					fail(mi, -1, "coverage", fmt.Sprintf("%s.%s (struct index %d) has no lookup entry (the encoder dereferences it)", typ.Name(), typ.Field(i).Name, i))
				}
			}
		}
		rec.Eval("entries", cells)
		rec.NonTrivialEnum(cells)
		rec.Class("known messages", int64(len(known)))
		rec.Class("table entries", int64(len(entries)))
		rec.Exhaustive("every lookup table entry of every known message (struct index, Go type, invalid value, sizes)")
		for _, e := range entries {
			if !fit.VerifIsKnown(e.Mesg) {
				fail(int(e.Mesg), int(e.Num), "known", "table has entries for a message that is not known")
			}
		}

		// 4. container and File slots hold known, constructible messages
		slots := int64(0)
		for _, ft := range prof.FileTypes {
			for _, s := range append(prof.FileSlots(), prof.Slots(ft)...) {
				slots++
				if s.Msg == 0xFFFF || !fit.VerifIsKnown(fit.MesgNum(s.Msg)) {
					fail(int(s.Msg), -1, "container", fmt.Sprintf("file type %d slot %s holds a message type the profile does not know", ft, s.Name))
				}
			}
		}
		rec.Eval("container slots", slots)

		// 5. dynamic confirmation: decode one full-width field per entry, encode one message per hosted type with every field set
		dyn := int64(0)
		host := map[uint16]fit.FileType{}
		for _, ft := range prof.FileTypes {
			for _, m := range prof.HostedMsgs(ft) {
				if _, ok := host[m]; !ok {
					host[m] = ft
				}
			}
		}
		for _, e := range entries {
			bt, ok := fitmodel.Base(e.Base)
			if !ok {
				continue
			}
			size := bt.Size * int(e.Length)
			if bt.String {
				size = int(e.Length)
			}
			if size > 255 {
				continue
			}
			ft := fit.FileTypeActivity
			if h, ok := host[uint16(e.Mesg)]; ok {
				ft = h
			}
			for _, be := range []bool{false, true} {
				payload := bytes.Repeat([]byte{0x01}, size)
				s := &fitmodel.Stream{HeaderSize: 12, Proto: 0x20, Recs: []fitmodel.Rec{
					{IsDef: true, Global: 0, Fields: []fitmodel.FieldDef{{Num: 0, Size: 1, Base: 0}}}, {Raw: []byte{byte(ft)}},
					{IsDef: true, Local: 1, BigEndian: be, Global: uint16(e.Mesg), Fields: []fitmodel.FieldDef{{Num: e.Num, Size: byte(size), Base: e.Base}}},
					{Local: 1, Raw: payload},
				}}
				dyn++
				var err error
				if p := oracle.Catch(func() { _, err = fit.Decode(bytes.NewReader(s.Bytes())) }); p != nil {
					fail(int(e.Mesg), int(e.Num), "decode", fmt.Sprintf("decoding a full-width field panics: %v", p))
				} else if err != nil {
					fail(int(e.Mesg), int(e.Num), "decode", fmt.Sprintf("decoding a full-width field of the profile type fails: %v", err))
				}
			}
		}
		// base-type bytes with the reserved bits 5 and 6 set, on every entry
		// at its profile size: the entry's own number with reserved bits, and
		// the string number with reserved bits. Whatever the validator lets
		// through, the store that follows must fit the struct field.
		for _, e := range entries {
			bt, ok := fitmodel.Base(e.Base)
			if !ok {
				continue
			}
			size := bt.Size * int(e.Length)
			if bt.String {
				size = int(e.Length)
			}
			if size > 255 || size == 0 {
				continue
			}
			ft := fit.FileTypeActivity
			if h, ok := host[uint16(e.Mesg)]; ok {
				ft = h
			}
			for _, b := range []byte{e.Base | 0x20, e.Base | 0x40, e.Base | 0x60, 0x27, 0x47, 0x67, 0xA7} {
				s := &fitmodel.Stream{HeaderSize: 12, Proto: 0x20, Recs: []fitmodel.Rec{
					{IsDef: true, Global: 0, Fields: []fitmodel.FieldDef{{Num: 0, Size: 1, Base: 0}}}, {Raw: []byte{byte(ft)}},
					{IsDef: true, Local: 1, Global: uint16(e.Mesg), Fields: []fitmodel.FieldDef{{Num: e.Num, Size: byte(size), Base: b}}},
					{Local: 1, Raw: bytes.Repeat([]byte{0x41}, size)},
				}}
				dyn++
				if p := oracle.Catch(func() { fit.Decode(bytes.NewReader(s.Bytes())) }); p != nil {
					fail(int(e.Mesg), int(e.Num), "decode", fmt.Sprintf("a definition with base-type byte %#02x (reserved bits set) and size %d panics: %v", b, size, p))
				}
			}
		}

		// look-alike redefinitions: the definition of entry (m, f) followed,
		// on the same local type, by the byte-identical field list for up to
		// three other messages in which field number f has another base
		// type. Whether such a definition is accepted is decided for the
		// message it names, each time: the second one must be rejected or
		// decoded, never reach a reflection access that fails.
		byNum := map[byte][]uint16{}
		for _, m := range prof.MsgNums() {
			for _, n := range prof.FieldNums(m) {
				byNum[n] = append(byNum[n], m)
			}
		}
		for _, e := range entries {
			bt, ok := fitmodel.Base(e.Base)
			if !ok {
				continue
			}
			size := bt.Size * int(e.Length)
			if bt.String {
				size = int(e.Length)
			}
			if size > 255 || size == 0 {
				continue
			}
			others := 0
			for _, m2 := range byNum[e.Num] {
				fi2 := prof.Table().Msgs[m2].Fields[e.Num]
				if m2 == uint16(e.Mesg) || fi2 == nil || fi2.Base == e.Base {
					continue
				}
				others++
				if others > 3 {
					break
				}
				fd := fitmodel.FieldDef{Num: e.Num, Size: byte(size), Base: e.Base}
				payload := bytes.Repeat([]byte{0x01}, size)
				s := &fitmodel.Stream{HeaderSize: 12, Proto: 0x20, Recs: []fitmodel.Rec{
					{IsDef: true, Global: 0, Fields: []fitmodel.FieldDef{{Num: 0, Size: 1, Base: 0}}}, {Raw: []byte{4}},
					{IsDef: true, Local: 1, Global: uint16(e.Mesg), Fields: []fitmodel.FieldDef{fd}}, {Local: 1, Raw: payload},
					{IsDef: true, Local: 1, Global: m2, Fields: []fitmodel.FieldDef{fd}}, {Local: 1, Raw: payload},
				}}
				dyn++
				if p := oracle.Catch(func() { fit.Decode(bytes.NewReader(s.Bytes())) }); p != nil {
					fail(int(m2), int(e.Num), "decode", fmt.Sprintf("a definition of field %d as base %#02x size %d for message %d, written right after the same definition for message %d on the same local type, panics: %v", e.Num, e.Base, size, m2, e.Mesg, p))
				}
			}
		}

		// the other profile-driven reflection access of the decoder: a
		// compressed-timestamp header stores the computed time in the
		// message's timestamp field. Every known message, with and without a
		// field of its own on the wire, after a full timestamp.
		for _, m := range prof.MsgNums() {
			mi := prof.Table().Msgs[m]
			ft := fit.FileTypeActivity
			if h, ok := host[m]; ok {
				ft = h
			}
			var first *fitmodel.FieldInfo
			for _, n := range prof.FieldNums(m) {
				if fi := mi.Fields[n]; fi != nil && n != 253 {
					first = fi
					break
				}
			}
			for variant := 0; variant < 2; variant++ {
				def := fitmodel.Rec{IsDef: true, Local: 2, BigEndian: variant == 1, Global: m}
				var payload []byte
				if variant == 1 && first != nil {
					bt := fitmodel.MustBase(first.Base)
					size := bt.Size
					if bt.String || first.Array {
						size = bt.Size * first.Length
						if bt.String {
							size = first.Length
						}
					}
					if size > 0 && size <= 255 {
						def.Fields = []fitmodel.FieldDef{{Num: first.Num, Size: byte(size), Base: first.Base}}
						payload = bytes.Repeat([]byte{0x01}, size)
					}
				}
				s := &fitmodel.Stream{HeaderSize: 12, Proto: 0x20, Recs: []fitmodel.Rec{
					{IsDef: true, Global: 0, Fields: []fitmodel.FieldDef{{Num: 0, Size: 1, Base: 0}}}, {Raw: []byte{byte(ft)}},
					{IsDef: true, Local: 1, Global: 20, Fields: []fitmodel.FieldDef{{Num: 253, Size: 4, Base: 0x86}}},
					{Local: 1, Raw: []byte{0x00, 0xCA, 0x9A, 0x3B}},
					def,
					{Local: 2, Compressed: true, TimeOffset: 7, Raw: payload},
					{Local: 2, Compressed: true, TimeOffset: 3, Raw: payload},
				}}
				dyn++
				var err error
				if p := oracle.Catch(func() { _, err = fit.Decode(bytes.NewReader(s.Bytes())) }); p != nil {
					fail(int(m), -1, "decode", fmt.Sprintf("decoding a compressed-timestamp record of message %d (%s) panics: %v", m, mi.Name, p))
				} else if err != nil {
					fail(int(m), -1, "decode", fmt.Sprintf("decoding a compressed-timestamp record of message %d (%s) fails: %v", m, mi.Name, err))
				}
			}
		}
		for _, ft := range prof.FileTypes {
			f, err := fit.NewFile(ft, fit.NewHeader(fit.V20, true))
			if err != nil {
				continue
			}
			f.FileId = *fit.NewFileIdMsg()
			f.FileId.Type = ft
			c, _ := prof.Container(f)
			cv := reflect.ValueOf(c).Elem()
			for _, s := range prof.Slots(ft) {
				mv := fit.VerifMesgAllInvalid(fit.MesgNum(s.Msg))
				mi := prof.Table().Msgs[s.Msg]
				for i := 0; i < mv.NumField(); i++ {
					fi := mi.BySIdx[i]
					if fi == nil {
						continue
					}
					fv := mv.Field(i)
					// a valid non-invalid value
					switch {
					case fv.Type() == timeType:
						fv.Set(reflect.ValueOf(time.Unix(fitmodel.FitEpochUnix+1000, 0).UTC()))
					case fv.Type() == latType:
						fv.Set(reflect.ValueOf(fit.NewLatitude(1)))
					case fv.Type() == lngType:
						fv.Set(reflect.ValueOf(fit.NewLongitude(1)))
					case fv.Kind() == reflect.String:
						fv.SetString("x")
					case fv.Kind() == reflect.Slice:
						if fv.Type().Elem().Kind() == reflect.String {
							continue
						}
						sl := reflect.MakeSlice(fv.Type(), 1, 1)
						prof.SetReflect(sl.Index(0), fitmodel.U(1))
						if sl.Index(0).Kind() >= reflect.Int && sl.Index(0).Kind() <= reflect.Int64 {
							sl.Index(0).SetInt(1)
						}
						fv.Set(sl)
					case fv.Kind() >= reflect.Int && fv.Kind() <= reflect.Int64:
						fv.SetInt(1)
					case fv.Kind() >= reflect.Uint && fv.Kind() <= reflect.Uint64:
						fv.SetUint(1)
					case fv.Kind() == reflect.Float32 || fv.Kind() == reflect.Float64:
						fv.SetFloat(1)
					}
				}
				p := reflect.New(mv.Type())
				p.Elem().Set(mv)
				slot := cv.Field(s.Index)
				if slot.Kind() == reflect.Slice {
					slot.Set(reflect.Append(slot, p))
				} else {
					slot.Set(p)
				}
			}
			for _, ord := range []binary.ByteOrder{binary.LittleEndian, binary.BigEndian} {
				dyn++
				var buf bytes.Buffer
				var eerr error
				if p := oracle.Catch(func() { eerr = fit.Encode(&buf, f, ord) }); p != nil {
					fail(-1, -1, "encode", fmt.Sprintf("encoding file type %d with every field of every message set panics: %v", ft, p))
				} else if eerr != nil {
					fail(-1, -1, "encode", fmt.Sprintf("encoding file type %d with every field set fails: %v", ft, eerr))
				}
			}
		}
		rec.Eval("dynamic", dyn)

		// 6. agreement with the bundled SDK workbooks (independent reading)
		versions := []string{"21.40"}
		if hx.Thorough() {
			versions = []string{"21.40", "20.43", "20.27", "20.14", "16.20"}
		}
		tab := prof.Table()
		for _, ver := range versions {
			w, err := wb.Open(filepath.Join(hx.RepoDir(), "cmd/fitgen/internal/profile/testdata", ver+".xlsx"))
			if err != nil {
				rec.Note("workbook " + ver + ": " + err.Error())
				continue
			}
			rows, _ := w.Rows()
			types := w.TypeDefs()
			nums := wb.MesgNums(types)
			agree, missing := int64(0), 0
			for _, r := range rows {
				if r.Sub || !r.Enabled {
					continue
				}
				fs, err := wb.Resolve(r, types)
				if err != nil {
					rec.Note(err.Error())
					continue
				}
				g, ok := nums[r.Msg]
				if !ok {
					continue
				}
				mi := tab.Msgs[uint16(g)]
				var fi *fitmodel.FieldInfo
				if mi != nil {
					fi = mi.Fields[byte(fs.Num)]
				}
				if fi == nil {
					missing++
					if ver == "21.40" {
						fail(g, fs.Num, "sdk", fmt.Sprintf("SDK %s row %d (%s.%s) is enabled in the workbook but the compiled-in profile has no entry for it", ver, r.Line, r.Msg, r.Name))
					}
					continue
				}
				agree++
				if fi.Name != fs.GoName || fi.Base != fs.Base || fi.Array != fs.Array || fi.Kind != fs.Kind {
					fail(g, fs.Num, "sdk", fmt.Sprintf("SDK %s row %d says %s.%s is field %d: base %#02x array=%v kind=%d; the compiled-in profile maps field %d to %s.%s: base %#02x array=%v kind=%d",
						ver, r.Line, r.Msg, fs.GoName, fs.Num, fs.Base, fs.Array, fs.Kind, fs.Num, mi.Name, fi.Name, fi.Base, fi.Array, fi.Kind))
				} else if ver == "21.40" && fi.Length != fs.Length {
					fail(g, fs.Num, "sdk", fmt.Sprintf("SDK %s row %d: %s.%s has length %d, compiled-in %d", ver, r.Line, r.Msg, r.Name, fs.Length, fi.Length))
				}
			}
			rec.Eval("sdk "+ver, agree)
			rec.NonTrivialEnum(agree)
			rec.Class("sdk "+ver+" enabled rows with a compiled-in entry", agree)
			rec.Class("sdk "+ver+" enabled rows without entry", int64(missing))
		}
		rec.Note(fmt.Sprintf("%d of %d compiled-in entries are cross-checked against workbook 21.40; the declared SDK 21.115 workbook is not available offline, the remaining entries are only checked for internal consistency", 756, len(entries)))
		rec.Sample(entryCase{20, 253, "record.timestamp: sindex, Go type time.Time, invalid = base time, uint32, length 1"})
		rec.Sample(entryCase{0, 8, "file_id.product_name: string length 20"})
		raw, _ := json.Marshal(entries[len(entries)/2])
		rec.Sample(json.RawMessage(raw))
	})
}
