//go:build verif

package c17

import (
	"bytes"
	"encoding/binary"
	"encoding/json"
	"fmt"
	"math"
	"os"
	"os/exec"
	"runtime"
	"strconv"
	"strings"
	"sync"
	"sync/atomic"
	"testing"
	"time"

	"github.com/tormoder/fit"

	"verif/hx"
)

type valCase struct {
	Kind  string `json:"kind"` // lat | lng | time
	Value int64  `json:"value"`
	Arch  string `json:"arch,omitempty"` // set when the case fails only in the build for that GOARCH
}

const sentinel = 0x7FFFFFFF

var undecided atomic.Int64

func checkLat(s int32, printed bool) string {
	l := fit.NewLatitude(s)
	wantInvalid := s == sentinel || s < -(1<<30) || s > 1<<30
	if s == 1<<30 {
		// exactly +90 degrees: the property says "outside +-90", the
		// documentation and an existing unit test exclude it; not decided
		undecided.Add(1)
		wantInvalid = l.Invalid()
	}
	if l.Invalid() != wantInvalid {
		return fmt.Sprintf("NewLatitude(%d).Invalid()=%v, want %v", s, l.Invalid(), wantInvalid)
	}
	if wantInvalid {
		if l.Semicircles() != sentinel {
			return fmt.Sprintf("NewLatitude(%d) is invalid but Semicircles()=%d, want the sentinel", s, l.Semicircles())
		}
		if !math.IsNaN(l.Degrees()) {
			return fmt.Sprintf("NewLatitude(%d) is invalid but Degrees()=%v", s, l.Degrees())
		}
		if printed && l.String() != "Invalid" {
			return fmt.Sprintf("NewLatitude(%d) is invalid but prints %q", s, l.String())
		}
		return ""
	}
	if l.Semicircles() != s {
		return fmt.Sprintf("NewLatitude(%d).Semicircles()=%d", s, l.Semicircles())
	}
	deg := l.Degrees()
	want := float64(int64(s)*180) / 2147483648.0
	if deg != want {
		return fmt.Sprintf("NewLatitude(%d).Degrees()=%v, want %v", s, deg, want)
	}
	if deg > -90 && deg < 90 {
		back := fit.NewLatitudeDegrees(deg)
		if back.Invalid() || abs64(int64(back.Semicircles())-int64(s)) > 1 {
			return fmt.Sprintf("NewLatitudeDegrees(%v) = %d semicircles (invalid=%v), started from %d", deg, back.Semicircles(), back.Invalid(), s)
		}
	}
	if printed {
		if msg := checkPrinted("Latitude", l.String(), deg, int64(s)); msg != "" {
			return msg
		}
	}
	return ""
}

func checkLng(s int32, printed bool) string {
	l := fit.NewLongitude(s)
	wantInvalid := s == sentinel
	if l.Invalid() != wantInvalid {
		return fmt.Sprintf("NewLongitude(%d).Invalid()=%v, want %v", s, l.Invalid(), wantInvalid)
	}
	if l.Semicircles() != s {
		return fmt.Sprintf("NewLongitude(%d).Semicircles()=%d", s, l.Semicircles())
	}
	if wantInvalid {
		if !math.IsNaN(l.Degrees()) {
			return fmt.Sprintf("invalid longitude has Degrees()=%v", l.Degrees())
		}
		if printed && l.String() != "Invalid" {
			return fmt.Sprintf("invalid longitude prints %q", l.String())
		}
		return ""
	}
	deg := l.Degrees()
	want := float64(int64(s)*180) / 2147483648.0
	if deg != want {
		return fmt.Sprintf("NewLongitude(%d).Degrees()=%v, want %v", s, deg, want)
	}
	if deg > -180 && deg < 180 {
		back := fit.NewLongitudeDegrees(deg)
		if back.Invalid() || abs64(int64(back.Semicircles())-int64(s)) > 1 {
			return fmt.Sprintf("NewLongitudeDegrees(%v) = %d semicircles (invalid=%v), started from %d", deg, back.Semicircles(), back.Invalid(), s)
		}
	}
	if printed {
		if msg := checkPrinted("Longitude", l.String(), deg, int64(s)); msg != "" {
			return msg
		}
	}
	return ""
}

func checkPrinted(what, str string, deg float64, s int64) string {
	if str == "Invalid" {
		return fmt.Sprintf("valid %s %d prints Invalid", what, s)
	}
	v, err := strconv.ParseFloat(str, 64)
	if err != nil {
		return fmt.Sprintf("%s %d prints %q: %v", what, s, str, err)
	}
	if math.Abs(v-deg) > 2e-5 {
		return fmt.Sprintf("%s %d prints %q, Degrees() is %v (off by %g > 2e-5)", what, s, str, deg, math.Abs(v-deg))
	}
	return ""
}

var epoch = time.Date(1989, 12, 31, 0, 0, 0, 0, time.UTC)

func checkTime(x uint32) string {
	t := fit.VerifDecodeDateTime(x)
	if t.Unix() != 631065600+int64(x) || t.Nanosecond() != 0 {
		return fmt.Sprintf("decode(%d) = %v, want 1989-12-31T00:00:00Z + %d s", x, t, x)
	}
	if _, off := t.Zone(); off != 0 {
		return fmt.Sprintf("decode(%d) is not UTC: %v", x, t)
	}
	if back := fit.VerifEncodeTime(t); back != x {
		return fmt.Sprintf("encode(decode(%d)) = %d", x, back)
	}
	if fit.IsBaseTime(t) != (x == 0) {
		return fmt.Sprintf("IsBaseTime(decode(%d)) = %v", x, fit.IsBaseTime(t))
	}
	// the same instant shown in another zone is the same time: IsBaseTime is
	// about the instant, and the encoding of an instant does not depend on
	// the zone it is shown in (decoded local timestamps carry fixed zones
	// with arbitrary offsets; offsets equal to +-x put the wall clock on the
	// base time)
	if x%65537 < 4 || x < 20000 || x > 0xFFFFC000 {
		for _, off := range zoneOffsets {
			for _, o := range []int{off, int(x), -int(x)} {
				if int64(o) < -86400*365*80 || int64(o) > 86400*365*80 {
					continue
				}
				tz := t.In(time.FixedZone("Z", o))
				if fit.IsBaseTime(tz) != (x == 0) {
					return fmt.Sprintf("IsBaseTime(decode(%d) shown in a zone %d s from UTC) = %v", x, o, fit.IsBaseTime(tz))
				}
				if back := fit.VerifEncodeTime(tz); back != x {
					return fmt.Sprintf("encode(decode(%d) shown in a zone %d s from UTC) = %d", x, o, back)
				}
			}
		}
	}
	if x != 0xFFFFFFFF {
		if n := fit.VerifDecodeDateTime(x + 1); !n.After(t) {
			return fmt.Sprintf("decode is not strictly increasing at %d", x)
		}
	}
	return ""
}

var zoneOffsets = []int{3600, -3600, 1, -1, 19800, -12600, 50400}

func abs64(a int64) int64 {
	if a < 0 {
		return -a
	}
	return a
}

func checkCase(c valCase) string {
	switch c.Kind {
	case "lat":
		return checkLat(int32(c.Value), true)
	case "lng":
		return checkLng(int32(c.Value), true)
	case "time":
		return checkTime(uint32(c.Value))
	}
	return "bad kind"
}

// sweep runs f over 0..2^32-1 with the given stride plus boundary values and
// returns the smallest failing value.
func sweep(kind string, stride uint64, printedStride uint64, f func(v uint32, printed bool) string, rec *hx.Recorder) int64 {
	workers := runtime.NumCPU()
	var wg sync.WaitGroup
	var mu sync.Mutex
	var best *valCase
	var bestMsg string
	var count atomic.Int64
	report := func(v uint32, msg string) {
		mu.Lock()
		defer mu.Unlock()
		val := int64(v)
		if kind != "time" {
			val = int64(int32(v))
		}
		if best == nil || uint32(best.Value) > v {
			best = &valCase{Kind: kind, Value: val}
			bestMsg = msg
		}
	}
	chunk := uint64(1) << 32 / uint64(workers)
	for w := 0; w < workers; w++ {
		wg.Add(1)
		go func(w int) {
			defer wg.Done()
			lo := uint64(w) * chunk
			hi := lo + chunk
			if w == workers-1 {
				hi = 1 << 32
			}
			// align to the stride grid
			start := (lo + stride - 1) / stride * stride
			n := int64(0)
			for v := start; v < hi; v += stride {
				printed := printedStride != 0 && v%printedStride == 0
				if msg := f(uint32(v), printed); msg != "" {
					report(uint32(v), msg)
				}
				n++
			}
			count.Add(n)
		}(w)
	}
	wg.Wait()
	// boundaries, always with the printed form
	var bounds []uint32
	for _, c := range []int64{0, 1 << 30, -(1 << 30), 1 << 31, sentinel, 1 << 29, 0xFFFFFFFF, 0x10000000} {
		for d := int64(-3); d <= 3; d++ {
			bounds = append(bounds, uint32(c+d))
		}
	}
	for _, v := range bounds {
		if msg := f(v, true); msg != "" {
			report(v, msg)
		}
		count.Add(1)
	}
	// the printed form near every whole degree (where a decimal carry happens)
	if printedStride != 0 {
		for deg := -180; deg <= 180; deg++ {
			center := int64(deg) * (1 << 31) / 180
			for d := int64(-80); d <= 80; d++ {
				v := center + d
				if v < -(1<<31) || v > 1<<31-1 {
					continue
				}
				if msg := f(uint32(int32(v)), true); msg != "" {
					report(uint32(int32(v)), msg)
				}
				count.Add(1)
			}
		}
	}
	if best != nil {
		rec.Fail(kind, "", bestMsg, *best)
	}
	return count.Load()
}

// archStride is the stride of the enumeration repeated in the test binary
// built for a 32-bit architecture.
const archStride = 4099

// archValues calls f for every value of the 32-bit enumeration: the stride
// grid plus the boundaries.
func archValues(f func(v uint32) bool) {
	for v := uint64(0); v < 1<<32; v += archStride {
		if !f(uint32(v)) {
			return
		}
	}
	for _, c := range []int64{0, 1 << 30, -(1 << 30), 1 << 31, sentinel, 1 << 29, 0xFFFFFFFF, 0x10000000, 11930464, -11930464, 1 << 24, -(1 << 24)} {
		for d := int64(-3); d <= 3; d++ {
			if !f(uint32(c + d)) {
				return
			}
		}
	}
}

// archWorker is what the 32-bit build of this binary runs: the same value
// checks, first failure on stdout.
func archWorker() {
	n := 0
	for _, k := range []string{"lat", "lng", "time"} {
		bad := false
		archValues(func(v uint32) bool {
			n++
			c := valCase{Kind: k, Value: int64(v)}
			if k != "time" {
				c.Value = int64(int32(v))
			}
			if msg := checkCase(c); msg != "" {
				fmt.Printf("MISMATCH %s %d %s\n", c.Kind, c.Value, msg)
				bad = true
				return false
			}
			return true
		})
		if bad {
			return
		}
	}
	fmt.Printf("ARCH-OK %d %s\n", n, runtime.GOARCH)
}

// otherArch runs the value checks in the test binary built for GOARCH=386
// (the driver builds it and names it in VERIF_C17_ARCH386): what a coordinate
// or a time converts to does not depend on the size of int.
func otherArch(rec *hx.Recorder) {
	bin := os.Getenv("VERIF_C17_ARCH386")
	if bin == "" {
		rec.Note("arch-386: no GOARCH=386 build of this check available, sub-check not run")
		return
	}
	cmd := exec.Command(bin)
	cmd.Env = append(os.Environ(), "VERIF_C17_WORKER=1", "VERIF_OUT=")
	var out, errb bytes.Buffer
	cmd.Stdout, cmd.Stderr = &out, &errb
	err := cmd.Run()
	switch {
	case err == nil && strings.Contains(out.String(), "ARCH-OK "):
		var n int64
		fmt.Sscanf(out.String()[strings.Index(out.String(), "ARCH-OK ")+8:], "%d", &n)
		rec.Eval("arch-386", n)
		rec.NonTrivialEnum(n)
	case strings.Contains(out.String(), "MISMATCH "):
		line := out.String()[strings.Index(out.String(), "MISMATCH ")+9:]
		if i := strings.IndexByte(line, '\n'); i >= 0 {
			line = line[:i]
		}
		var c valCase
		var rest string
		if parts := strings.SplitN(line, " ", 3); len(parts) == 3 {
			c.Kind = parts[0]
			c.Value, _ = strconv.ParseInt(parts[1], 10, 64)
			rest = parts[2]
		}
		c.Arch = "386"
		rec.Eval("arch-386", 1)
		rec.Fail("arch-386", "", "compiled for GOARCH=386: "+rest, c)
	case strings.Contains(errb.String(), "panic:"):
		rec.Eval("arch-386", 1)
		rec.Fail("arch-386", "", "compiled for GOARCH=386 the value checks crash: "+strings.SplitN(errb.String()[strings.Index(errb.String(), "panic:"):], "\n", 2)[0], valCase{Kind: "lat", Arch: "386"})
	default:
		// the sandbox cannot run 32-bit binaries, or the child died for
		// another reason: not a verdict
		rec.Note(fmt.Sprintf("arch-386: child ended with %v and no verdict", err))
	}
}

// firstCallFuncs are the package's coordinate and time entry points; each is
// applied to fixed inputs and renders its results as text.
var firstCallFuncs = []struct {
	name string
	run  func() string
}{
	{"NewLatitude", func() string {
		l := fit.NewLatitude(495280430)
		return fmt.Sprint(l.Semicircles(), l.Invalid(), l.Degrees(), l.String())
	}},
	{"NewLongitude", func() string {
		l := fit.NewLongitude(-703539217)
		return fmt.Sprint(l.Semicircles(), l.Invalid(), l.Degrees(), l.String())
	}},
	{"NewLatitudeDegrees", func() string {
		return fmt.Sprint(fit.NewLatitudeDegrees(41.51393).Semicircles(), fit.NewLatitudeDegrees(-89.5).Semicircles(), fit.NewLatitudeDegrees(91).Invalid())
	}},
	{"NewLongitudeDegrees", func() string {
		return fmt.Sprint(fit.NewLongitudeDegrees(58.969975942745805).Semicircles(), fit.NewLongitudeDegrees(-179.99).Semicircles(), fit.NewLongitudeDegrees(0.5).Semicircles())
	}},
	{"Latitude.String of an invalid value", func() string {
		return fit.NewLatitude(sentinel).String() + fmt.Sprint(fit.NewLatitude(sentinel).Degrees())
	}},
	{"Longitude.Degrees", func() string { return fmt.Sprint(fit.NewLongitude(1 << 30).Degrees()) }},
	{"IsBaseTime", func() string {
		return fmt.Sprint(fit.IsBaseTime(epoch), fit.IsBaseTime(epoch.Add(time.Second)), fit.IsBaseTime(epoch.In(time.FixedZone("Z", 3600))))
	}},
	{"time conversion", func() string {
		return fmt.Sprint(fit.VerifDecodeDateTime(1000000000).Unix(), fit.VerifEncodeTime(epoch.Add(77*time.Second)))
	}},
}

// firstCallWorker: this fresh process calls entry point k before anything
// else of the package, then all others, and prints what each returned.
func firstCallWorker(k int) {
	order := []int{k}
	for i := range firstCallFuncs {
		if i != k {
			order = append(order, i)
		}
	}
	for _, i := range order {
		fmt.Printf("RESULT %d %s\n", i, firstCallFuncs[i].run())
	}
	fmt.Println("FIRSTCALL-OK")
}

// firstCall: what an entry point returns does not depend on which of the
// package's functions a process happens to call first. For every entry point
// a fresh process calls it first; the results are compared with this
// (long-running) process's.
func firstCall(rec *hx.Recorder) {
	self, err := os.Executable()
	if err != nil {
		rec.Note("first-call: " + err.Error())
		return
	}
	want := make([]string, len(firstCallFuncs))
	for i, f := range firstCallFuncs {
		want[i] = f.run()
	}
	for k, f := range firstCallFuncs {
		cmd := exec.Command(self)
		cmd.Env = append(os.Environ(), fmt.Sprintf("VERIF_C17_WORKER=first:%d", k), "VERIF_OUT=")
		var out, errb bytes.Buffer
		cmd.Stdout, cmd.Stderr = &out, &errb
		err := cmd.Run()
		rec.Eval("first-call", int64(len(firstCallFuncs)))
		if err != nil || !strings.Contains(out.String(), "FIRSTCALL-OK") {
			if strings.Contains(errb.String(), "panic:") {
				rec.Fail("first-call", "", fmt.Sprintf("a fresh process whose first call into the package is %s crashes: %s", f.name, strings.SplitN(errb.String()[strings.Index(errb.String(), "panic:"):], "\n", 2)[0]), valCase{Kind: "first-call", Value: int64(k)})
				return
			}
			rec.Note(fmt.Sprintf("first-call: child %d ended with %v and no verdict", k, err))
			return
		}
		for _, line := range strings.Split(out.String(), "\n") {
			var i int
			if n, _ := fmt.Sscanf(line, "RESULT %d ", &i); n != 1 || i < 0 || i >= len(want) {
				continue
			}
			got := strings.TrimPrefix(line, fmt.Sprintf("RESULT %d ", i))
			if got != want[i] {
				rec.Fail("first-call", "", fmt.Sprintf("in a fresh process whose first call into the package is %s, %s returns %s; in a process that has used the package before it returns %s", f.name, firstCallFuncs[i].name, got, want[i]), valCase{Kind: "first-call", Value: int64(k)})
				return
			}
		}
	}
	rec.NonTrivialEnum(int64(len(firstCallFuncs) * len(firstCallFuncs)))
}

func TestC17(t *testing.T) {
	if os.Getenv("VERIF_C17_WORKER") == "1" {
		archWorker()
		return
	}
	if w := os.Getenv("VERIF_C17_WORKER"); strings.HasPrefix(w, "first:") {
		var k int
		fmt.Sscanf(w, "first:%d", &k)
		firstCallWorker(k)
		return
	}
	hx.Main(t, "C17", func(rec *hx.Recorder) {
		if rp, ok := hx.LoadReplay(); ok {
			var c valCase
			json.Unmarshal(rp.Case, &c)
			rec.Eval("replay", 1)
			if c.Arch != "" {
				otherArch(rec)
				return
			}
			if c.Kind == "first-call" {
				firstCall(rec)
				return
			}
			if msg := checkCase(c); msg != "" {
				rec.Fail(rp.Sub, "", msg, c)
			}
			return
		}
		stride, pstride := uint64(257), uint64(257*16)
		if hx.Thorough() {
			stride, pstride = 1, 1
		}
		// the seed shifts nothing: the enumeration is deterministic; quick
		// uses a stride plus all boundaries
		n := sweep("lat", stride, pstride, func(v uint32, p bool) string { return checkLat(int32(v), p) }, rec)
		rec.Eval("lat", n)
		rec.NonTrivialEnum(n)
		n = sweep("lng", stride, pstride, func(v uint32, p bool) string { return checkLng(int32(v), p) }, rec)
		rec.Eval("lng", n)
		rec.NonTrivialEnum(n)
		n = sweep("time", stride, 0, func(v uint32, p bool) string { return checkTime(v) }, rec)
		rec.Eval("time", n)
		rec.NonTrivialEnum(n)
		if hx.Thorough() {
			rec.Exhaustive("all 2^32 semicircle values for Latitude and Longitude (validity, Semicircles, Degrees, NewXDegrees round trip, printed form) and all 2^32 second counts (decode, encode, monotonic, IsBaseTime)")
		} else {
			rec.Exhaustive("every 257th of the 2^32 values plus +-3 around 0, +-2^30, 2^31, the sentinel, 2^29, 2^32-1 and the system-time marker (printed form on every 16th of those)")
		}
		rec.Undecided(undecided.Load())
		rec.Sample(valCase{Kind: "lat", Value: 1 << 30})
		rec.Sample(valCase{Kind: "lng", Value: -2147483648})
		rec.Sample(valCase{Kind: "time", Value: 0xFFFFFFFE})

		// sampled: time and coordinate fields through Encode/Decode
		vals := []int64{1, 31, 0x0FFFFFFF, 0x10000000, 1000000000, 0xFFFFFFFE}
		for i, sec := range vals {
			lat := int32(-(1 << 30) + int64(i)*357913941)
			lng := int32(-(1 << 31) + int64(i)*715827882)
			for _, ord := range []binary.ByteOrder{binary.LittleEndian, binary.BigEndian} {
				f, _ := fit.NewFile(fit.FileTypeActivity, fit.NewHeader(fit.V20, true))
				f.FileId = *fit.NewFileIdMsg()
				f.FileId.Type = fit.FileTypeActivity
				a, _ := f.Activity()
				r := fit.NewRecordMsg()
				r.Timestamp = epoch.Add(time.Duration(sec) * time.Second)
				r.PositionLat = fit.NewLatitude(lat)
				r.PositionLong = fit.NewLongitude(lng)
				a.Records = append(a.Records, r)
				var buf bytes.Buffer
				if err := fit.Encode(&buf, f, ord); err != nil {
					rec.Fail("fields", "", "Encode: "+err.Error(), valCase{Kind: "time", Value: sec})
					continue
				}
				g, err := fit.Decode(bytes.NewReader(buf.Bytes()))
				if err != nil {
					rec.Fail("fields", "", "Decode: "+err.Error(), valCase{Kind: "time", Value: sec})
					continue
				}
				ga, _ := g.Activity()
				if len(ga.Records) != 1 || !ga.Records[0].Timestamp.Equal(r.Timestamp) || ga.Records[0].PositionLat != r.PositionLat || ga.Records[0].PositionLong != r.PositionLong {
					rec.Fail("fields", "", fmt.Sprintf("record (t=%d s, lat %d, lng %d) came back as %+v", sec, lat, lng, ga.Records), valCase{Kind: "time", Value: sec})
				}
			}
		}
		rec.Eval("fields", int64(2*len(vals)))
		if hx.FirstShard() {
			otherArch(rec)
			firstCall(rec)
		}
	})
}
