//go:build verif

package c14

import (
	"bytes"
	"encoding/hex"
	"encoding/json"
	"fmt"
	"io"
	"os"
	"os/exec"
	"runtime"
	"sort"
	"strings"
	"sync"
	"sync/atomic"
	"testing"

	"github.com/tormoder/fit/dyncrc16"
	"pgregory.net/rapid"

	"verif/fitmodel"
	"verif/hx"
)

// writeCase is a byte string with a partition into successive writes.
type writeCase struct {
	Data  string `json:"data_hex"`
	Cuts  []int  `json:"cuts"` // ascending offsets where a new Write starts (may repeat = empty write)
	Reset int    `json:"reset_after_prefix"`
}

func checkWriteCase(c writeCase) (string, bool) {
	data, err := hex.DecodeString(c.Data)
	if err != nil {
		return "bad replay", false
	}
	want := fitmodel.CRC(data)
	if got := dyncrc16.Checksum(data); got != want {
		return fmt.Sprintf("Checksum(%x)=%#04x, CRC-16/ARC=%#04x", data, got, want), false
	}
	h := dyncrc16.New()
	if h.Sum16() != 0 {
		return fmt.Sprintf("New().Sum16()=%#04x, want 0", h.Sum16()), false
	}
	prev := 0
	for _, cut := range append(append([]int{}, c.Cuts...), len(data)) {
		if cut < prev || cut > len(data) {
			continue
		}
		n, err := h.Write(data[prev:cut])
		if err != nil || n != cut-prev {
			return fmt.Sprintf("Write returned (%d,%v) for %d bytes", n, err, cut-prev), false
		}
		if got, w := h.Sum16(), fitmodel.CRC(data[:cut]); got != w {
			return fmt.Sprintf("after writes up to %d: Sum16=%#04x, reference %#04x", cut, got, w), false
		}
		// reading the sum (through any of the three readers) is not a write:
		// the streaming state is just the register, and the next Write
		// continues from it
		if cut%3 == 1 {
			w := fitmodel.CRC(data[:cut])
			s1 := h.Sum([]byte{0xAA})
			s2 := h.Sum(nil)
			if len(s1) != 3 || len(s2) != 2 || s1[0] != 0xAA || s1[1] != s2[0] || s1[2] != s2[1] {
				return fmt.Sprintf("Sum(prefix)=%x and Sum(nil)=%x after %d bytes do not carry the same two bytes", s1, s2, cut), false
			}
			if got := h.Sum16(); got != w {
				return fmt.Sprintf("Sum16 after Sum = %#04x, before it %#04x (Sum changed the state)", got, w), false
			}
			if h.Size() != 2 || h.BlockSize() < 1 {
				return fmt.Sprintf("Size()=%d BlockSize()=%d", h.Size(), h.BlockSize()), false
			}
		}
		prev = cut
	}
	if got := h.Sum16(); got != want {
		return fmt.Sprintf("streamed sum %#04x != single %#04x", got, want), false
	}
	// Sum appends big-endian per hash.Hash convention of this package; only
	// its consistency with Sum16 is required by nothing in the property, so it
	// is not checked. Residue rule: data || lo || hi has checksum 0.
	withCRC := append(append([]byte{}, data...), byte(want), byte(want>>8))
	if got := dyncrc16.Checksum(withCRC); got != 0 {
		return fmt.Sprintf("residue: Checksum(data||crc LE)=%#04x, want 0", got), false
	}
	h2 := dyncrc16.New()
	h2.Write(withCRC)
	if h2.Sum16() != 0 {
		return fmt.Sprintf("residue (streamed): %#04x, want 0", h2.Sum16()), false
	}
	// Fed as an io.Writer by io.Copy (which prefers a ReadFrom method of the
	// destination when there is one) from readers that hand the data over in
	// the ways the io.Reader contract allows: in pieces, one byte at a time,
	// and with the last piece delivered together with io.EOF.
	for mode := 0; mode < 4; mode++ {
		h4 := dyncrc16.New()
		n, err := io.Copy(h4, &feedReader{data: data, mode: mode, cuts: c.Cuts})
		if err != nil || n != int64(len(data)) {
			return fmt.Sprintf("io.Copy into the hash (reader mode %d) returned (%d, %v) for %d bytes", mode, n, err, len(data)), false
		}
		if got := h4.Sum16(); got != want {
			return fmt.Sprintf("io.Copy into the hash from a reader of mode %d (0 whole, 1 pieces, 2 single bytes, 3 last piece with io.EOF) gives %#04x, a single Write %#04x", mode, got, want), false
		}
	}
	// Optional writer interfaces: io.WriteString uses a WriteString method of
	// the destination when it has one, and a hash may also offer WriteByte.
	// Whatever the hash implements must agree with Write. The data is fed as
	// a Go string (valid UTF-8 or not: a string is a byte sequence).
	h5 := dyncrc16.New()
	prev = 0
	for _, cut := range append(append([]int{}, c.Cuts...), len(data)) {
		if cut < prev || cut > len(data) {
			continue
		}
		if n, err := io.WriteString(h5, string(data[prev:cut])); err != nil || n != cut-prev {
			return fmt.Sprintf("io.WriteString into the hash returned (%d, %v) for %d bytes", n, err, cut-prev), false
		}
		prev = cut
	}
	if got := h5.Sum16(); got != want {
		return fmt.Sprintf("io.WriteString of the data (as strings cut at %v) gives %#04x, Write gives %#04x", c.Cuts, got, want), false
	}
	if bw, ok := dyncrc16.New().(io.ByteWriter); ok {
		for _, b := range data {
			if err := bw.WriteByte(b); err != nil {
				return fmt.Sprintf("WriteByte returned %v", err), false
			}
		}
		if got := bw.(dyncrc16.Hash16).Sum16(); got != want {
			return fmt.Sprintf("WriteByte for every byte gives %#04x, Write gives %#04x", got, want), false
		}
	}
	// Reset after an arbitrary prefix returns to the initial state.
	p := c.Reset
	if p < 0 || p > len(data) {
		p = len(data)
	}
	h3 := dyncrc16.New()
	h3.Write(data[:p])
	h3.Reset()
	if h3.Sum16() != 0 {
		return fmt.Sprintf("Reset: Sum16=%#04x, want 0", h3.Sum16()), false
	}
	h3.Write(data)
	if h3.Sum16() != want {
		return fmt.Sprintf("after Reset: sum %#04x, want %#04x", h3.Sum16(), want), false
	}
	return "", true
}

// bigCase is a long pseudo-random byte string (given by a generator seed, so
// that the replay file stays small) with a partition into successive writes.
type bigCase struct {
	Seed uint64 `json:"xorshift_seed"`
	Len  int    `json:"length"`
	Cuts []int  `json:"cuts"`
}

func (c bigCase) data() []byte {
	x := c.Seed | 1
	b := make([]byte, c.Len)
	for i := range b {
		x ^= x << 13
		x ^= x >> 7
		x ^= x << 17
		b[i] = byte(x >> 24)
	}
	return b
}

func checkBigCase(c bigCase) (string, bool) {
	data := c.data()
	want := fitmodel.CRC(data)
	if got := dyncrc16.Checksum(data); got != want {
		return fmt.Sprintf("Checksum of %d bytes = %#04x, CRC-16/ARC = %#04x", len(data), got, want), false
	}
	h := dyncrc16.New()
	if n, err := h.Write(data); n != len(data) || err != nil {
		return fmt.Sprintf("a single Write of %d bytes returned (%d, %v)", len(data), n, err), false
	}
	if got := h.Sum16(); got != want {
		return fmt.Sprintf("a single Write of %d bytes gives %#04x, CRC-16/ARC = %#04x", len(data), got, want), false
	}
	h.Reset()
	prev := 0
	for _, cut := range append(append([]int{}, c.Cuts...), len(data)) {
		if cut < prev || cut > len(data) {
			continue
		}
		if n, err := h.Write(data[prev:cut]); n != cut-prev || err != nil {
			return fmt.Sprintf("Write of %d bytes returned (%d, %v)", cut-prev, n, err), false
		}
		prev = cut
	}
	if got := h.Sum16(); got != want {
		return fmt.Sprintf("%d bytes written in pieces cut at %v give %#04x, a single write and the reference %#04x", len(data), c.Cuts, got, want), false
	}
	h.Reset()
	h.Write(append(data, byte(want), byte(want>>8)))
	if got := h.Sum16(); got != 0 {
		return fmt.Sprintf("residue: %d bytes || sum written at once give %#04x, want 0", len(data), got), false
	}
	return "", true
}

// feedReader hands data to io.Copy: mode 0 as much as asked for, 1 in pieces
// ending at the case's cut points, 2 one byte per call, 3 like 1 with the
// last piece returned together with io.EOF.
type feedReader struct {
	data []byte
	pos  int
	mode int
	cuts []int
}

func (r *feedReader) Read(p []byte) (int, error) {
	if r.pos >= len(r.data) {
		return 0, io.EOF
	}
	n := len(p)
	switch r.mode {
	case 1, 3:
		for _, c := range r.cuts {
			if c > r.pos && c-r.pos < n {
				n = c - r.pos
			}
		}
	case 2:
		n = 1
	}
	if n > len(r.data)-r.pos {
		n = len(r.data) - r.pos
	}
	copy(p, r.data[r.pos:r.pos+n])
	r.pos += n
	if r.mode == 3 && r.pos == len(r.data) {
		return n, io.EOF
	}
	return n, nil
}

type transCase struct {
	State uint16 `json:"state"`
	Byte  byte   `json:"byte"`
}

// prefixFor returns a 2-byte string whose CRC-16/ARC is s. The map from 2-byte
// strings to states is a bijection (CRC of width 16 over 16 bits of input).
var prefixes = func() [65536][2]byte {
	var p [65536][2]byte
	var seen [65536]bool
	for a := 0; a < 256; a++ {
		for b := 0; b < 256; b++ {
			s := fitmodel.CRC([]byte{byte(a), byte(b)})
			if seen[s] {
				panic("not a bijection")
			}
			seen[s] = true
			p[s] = [2]byte{byte(a), byte(b)}
		}
	}
	return p
}()

func checkTransition(c transCase) (string, bool) {
	h := dyncrc16.New()
	p := prefixes[c.State]
	h.Write(p[:])
	if h.Sum16() != c.State {
		return fmt.Sprintf("prefix %x: Sum16=%#04x, reference state %#04x", p, h.Sum16(), c.State), false
	}
	h.Write([]byte{c.Byte})
	if want := fitmodel.CRCStep(c.State, c.Byte); h.Sum16() != want {
		return fmt.Sprintf("state %#04x byte %#02x: got %#04x want %#04x", c.State, c.Byte, h.Sum16(), want), false
	}
	return "", true
}

// TestMain: with VERIF_C14_WORKER set this binary is the child of the
// "build-variants" sub-check: the same package built for another architecture
// or with the build tags by which Go packages select portable instead of
// assembly or unsafe code paths (purego, noasm, appengine). The checksum is a
// function of the bytes under every one of them. The child checks every
// transition and a fixed family of write cases and big writes.
func TestMain(m *testing.M) {
	if os.Getenv("VERIF_C14_WORKER") == "" {
		os.Exit(m.Run())
	}
	if os.Getenv("VERIF_C14_WORKER") == "first-use" {
		firstUseWorker()
	}
	h := dyncrc16.New()
	for s := 0; s < 65536; s++ {
		p := prefixes[s]
		for b := 0; b < 256; b++ {
			h.Reset()
			h.Write(p[:])
			h.Write([]byte{byte(b)})
			if h.Sum16() != fitmodel.CRCStep(uint16(s), byte(b)) {
				msg, _ := checkTransition(transCase{uint16(s), byte(b)})
				fmt.Println("MISMATCH " + msg)
				os.Exit(3)
			}
		}
	}
	x := uint64(88172645463325252)
	next := func() uint64 { x ^= x << 13; x ^= x >> 7; x ^= x << 17; return x }
	for i := 0; i < 3000; i++ {
		n := int(next() % 300)
		data := make([]byte, n)
		for j := range data {
			data[j] = byte(next() >> 24)
		}
		c := writeCase{Data: hex.EncodeToString(data)}
		for k := int(next() % 4); k > 0 && n > 0; k-- {
			c.Cuts = append(c.Cuts, int(next()%uint64(n)))
		}
		sort.Ints(c.Cuts)
		if msg, ok := checkWriteCase(c); !ok {
			fmt.Println("MISMATCH " + msg)
			os.Exit(3)
		}
	}
	for _, n := range []int{7, 8, 9, 15, 16, 17, 63, 64, 65, 4095, 4096, 65535, 65536, 65537, 200000} {
		if msg, ok := checkBigCase(bigCase{Seed: uint64(n), Len: n, Cuts: []int{n / 3}}); !ok {
			fmt.Println("MISMATCH " + msg)
			os.Exit(3)
		}
	}
	fmt.Println("C14-OK")
	os.Exit(0)
}

// firstUseWorker is the child of the "first-use" sub-check: the very first
// calls into the package made by this process come from 8 goroutines at the
// same moment (a spin barrier), each using one of the package's entry points
// on data of its own length; every result is compared with the reference.
// Whatever the package sets up on first use must be ready for all of them.
func firstUseWorker() {
	var mode int
	fmt.Sscan(os.Getenv("VERIF_C14_MODE"), &mode)
	const g = 8
	lens := []int{4096, 64, 63, 65536, 1, 1024, 300, 70000}
	datas := make([][]byte, g)
	wants := make([]uint16, g)
	for i := range datas {
		datas[i] = bigCase{Seed: uint64(i + 1 + 10*mode), Len: lens[(i+mode)%len(lens)]}.data()
		wants[i] = fitmodel.CRC(datas[i])
	}
	var ready, goFlag int32
	got := make([]uint16, g)
	var wg sync.WaitGroup
	for i := 0; i < g; i++ {
		wg.Add(1)
		go func(i int) {
			defer wg.Done()
			atomic.AddInt32(&ready, 1)
			for atomic.LoadInt32(&goFlag) == 0 {
			}
			switch (i + mode) % 3 {
			case 0:
				got[i] = dyncrc16.Checksum(datas[i])
			case 1:
				h := dyncrc16.New()
				h.Write(datas[i])
				got[i] = h.Sum16()
			default:
				h := dyncrc16.New()
				h.Write(datas[i][:len(datas[i])/2])
				h.Write(datas[i][len(datas[i])/2:])
				b := h.Sum(nil)
				got[i] = uint16(b[0])<<8 | uint16(b[1])
			}
		}(i)
	}
	for atomic.LoadInt32(&ready) < g {
		runtime.Gosched()
	}
	atomic.StoreInt32(&goFlag, 1)
	wg.Wait()
	for i := range got {
		if got[i] != wants[i] {
			fmt.Printf("MISMATCH goroutine %d of %d whose calls are the first this process makes into the package (%d bytes, entry point %d): sum %#04x, CRC-16/ARC = %#04x\n", i, g, len(datas[i]), (i+mode)%3, got[i], wants[i])
			os.Exit(3)
		}
	}
	fmt.Println("C14-OK")
	os.Exit(0)
}

// firstUse runs firstUseWorker in fresh processes.
func firstUse(rec *hx.Recorder) {
	self, err := os.Executable()
	if err != nil {
		rec.Note("first-use: " + err.Error())
		return
	}
	n := hx.Pick(40, 400)
	for mode := 0; mode < n; mode++ {
		cmd := exec.Command(self)
		cmd.Env = append(os.Environ(), "VERIF_C14_WORKER=first-use", fmt.Sprintf("VERIF_C14_MODE=%d", mode), "VERIF_OUT=")
		var out, errb bytes.Buffer
		cmd.Stdout, cmd.Stderr = &out, &errb
		err := cmd.Run()
		rec.Eval("first-use", 8)
		switch {
		case err == nil && strings.Contains(out.String(), "C14-OK"):
		case strings.Contains(out.String(), "MISMATCH "):
			msg := out.String()[strings.Index(out.String(), "MISMATCH ")+9:]
			if i := strings.IndexByte(msg, '\n'); i >= 0 {
				msg = msg[:i]
			}
			rec.Fail("first-use", "", msg, writeCase{Data: "", Reset: -1})
			return
		case strings.Contains(errb.String(), "panic:") || strings.Contains(errb.String(), "fatal error:"):
			rec.Fail("first-use", "", "8 goroutines making the process's first calls into the package crash it: "+strings.SplitN(errb.String(), "\n", 2)[0], writeCase{Data: "", Reset: -1})
			return
		default:
			rec.Note(fmt.Sprintf("first-use: child ended with %v and no verdict", err))
			return
		}
	}
	rec.NonTrivialEnum(int64(n))
}

// cpuCounts: the sum does not depend on how many processors the program may
// use. Large and small inputs are summed under GOMAXPROCS 1, 2, 3, 5, 6, 7,
// 12 and 13 (powers of two and not) through Checksum, one Write and pieces.
func cpuCounts(rec *hx.Recorder) {
	old := runtime.GOMAXPROCS(0)
	defer runtime.GOMAXPROCS(old)
	n := int64(0)
	for _, procs := range []int{1, 2, 3, 5, 6, 7, 12, 13} {
		runtime.GOMAXPROCS(procs)
		for _, l := range []int{1000, 1 << 16, 1<<20 - 1, 1 << 20, 1<<20 + 1, 3<<20 + 5, 1<<24 + 1} {
			if l > 1<<22 && procs != 3 && procs != 6 && !hx.Thorough() {
				continue
			}
			c := bigCase{Seed: uint64(l + procs), Len: l, Cuts: []int{l / 3, l - l/7}}
			n++
			if msg, ok := checkBigCase(c); !ok {
				rec.Fail("cpu-counts", "", fmt.Sprintf("with GOMAXPROCS=%d: %s", procs, msg), c)
				rec.Eval("cpu-counts", n)
				return
			}
		}
	}
	rec.Eval("cpu-counts", n)
	rec.NonTrivialEnum(n)
}

// buildVariants runs the children described at TestMain.
func buildVariants(rec *hx.Recorder) {
	for _, v := range []struct{ env, name string }{
		{"VERIF_C14_PUREGO", "built with -tags purego"}, {"VERIF_C14_NOASM", "built with -tags noasm,appengine"}, {"VERIF_C14_ARCH386", "built for GOARCH=386"},
	} {
		bin := os.Getenv(v.env)
		if bin == "" {
			rec.Note("build-variants: no binary " + v.name + " available, not run")
			continue
		}
		cmd := exec.Command(bin)
		cmd.Env = append(os.Environ(), "VERIF_C14_WORKER=1", "VERIF_OUT=")
		var out, errb bytes.Buffer
		cmd.Stdout, cmd.Stderr = &out, &errb
		err := cmd.Run()
		switch {
		case err == nil && strings.Contains(out.String(), "C14-OK"):
			rec.Eval("build-variants", 65536*256+3015)
		case strings.Contains(out.String(), "MISMATCH "):
			rec.Eval("build-variants", 1)
			msg := out.String()[strings.Index(out.String(), "MISMATCH ")+9:]
			if i := strings.IndexByte(msg, '\n'); i >= 0 {
				msg = msg[:i]
			}
			rec.Fail("build-variants", "", "the package "+v.name+": "+msg, writeCase{Data: "", Reset: -1})
		default:
			rec.Note(fmt.Sprintf("build-variants: the child %s ended with %v and no verdict", v.name, err))
		}
	}
}

func TestC14(t *testing.T) {
	hx.Main(t, "C14", func(rec *hx.Recorder) {
		if rp, ok := hx.LoadReplay(); ok {
			switch rp.Sub {
			case "first-use":
				firstUse(rec)
			case "cpu-counts":
				cpuCounts(rec)
			case "build-variants":
				buildVariants(rec)
			case "large-writes":
				var c bigCase
				json.Unmarshal(rp.Case, &c)
				if msg, ok := checkBigCase(c); !ok {
					rec.Fail(rp.Sub, "", msg, c)
				}
			case "transitions":
				var c transCase
				json.Unmarshal(rp.Case, &c)
				if msg, ok := checkTransition(c); !ok {
					rec.Fail(rp.Sub, "", msg, c)
				}
			default:
				var c writeCase
				json.Unmarshal(rp.Case, &c)
				if msg, ok := checkWriteCase(c); !ok {
					rec.Fail(rp.Sub, "", msg, c)
				}
			}
			rec.Eval("replay", 1)
			return
		}

		buildVariants(rec)
		firstUse(rec)
		cpuCounts(rec)

		// Exhaustive: all 65536 x 256 transitions through the public API.
		var bad atomic.Int64
		var wg sync.WaitGroup
		workers := runtime.NumCPU()
		var mu sync.Mutex
		var first *transCase
		var firstMsg string
		for w := 0; w < workers; w++ {
			wg.Add(1)
			go func(w int) {
				defer wg.Done()
				h := dyncrc16.New()
				for s := w; s < 65536; s += workers {
					p := prefixes[s]
					for b := 0; b < 256; b++ {
						h.Reset()
						h.Write(p[:])
						ok := h.Sum16() == uint16(s)
						if ok {
							h.Write([]byte{byte(b)})
							ok = h.Sum16() == fitmodel.CRCStep(uint16(s), byte(b))
						}
						if !ok {
							bad.Add(1)
							mu.Lock()
							c := transCase{uint16(s), byte(b)}
							if first == nil || c.State < first.State || (c.State == first.State && c.Byte < first.Byte) {
								first = &c
								firstMsg, _ = checkTransition(c)
							}
							mu.Unlock()
						}
					}
				}
			}(w)
		}
		wg.Wait()
		rec.Eval("transitions", 65536*256)
		rec.NonTrivialEnum(65536 * 256)
		rec.Exhaustive("all 65536 register states x 256 input bytes through New/Reset/Write/Sum16")
		rec.Sample(map[string]any{"kind": "transition", "state": 0xBEEF, "byte": 0x42, "next": fitmodel.CRCStep(0xBEEF, 0x42)})
		if first != nil {
			rec.Fail("transitions", "", fmt.Sprintf("%d of 16777216 transitions disagree; smallest: %s", bad.Load(), firstMsg), *first)
		}

		// Structured: data || its own sum (little-endian) || zero bytes ||
		// more data, written in one piece and in drawn pieces. Data that
		// carries its own checksum followed by padding is exactly what a FIT
		// stream looks like, and it is where an implementation that treats
		// several bytes at a time (table slicing, word-at-a-time loops) can
		// differ from the byte-wise definition although every single-byte
		// transition above is right.
		hx.RapidCheck(t, rec, "embedded-sums", func(rt *rapid.T, fail func(string, string, any)) {
			for k := 0; k < 50; k++ {
				n := rapid.IntRange(0, 40).Draw(rt, "bodylen")
				if rapid.Bool().Draw(rt, "aligned") {
					n = n / 8 * 8
				}
				data := rapid.SliceOfN(rapid.Byte(), n, n).Draw(rt, "body")
				prefix := rapid.IntRange(0, 2).Draw(rt, "prefixwords") * 8
				buf := append(make([]byte, 0, 128), rapid.SliceOfN(rapid.Byte(), prefix, prefix).Draw(rt, "prefix")...)
				buf = append(buf, data...)
				sum := fitmodel.CRC(buf)
				buf = append(buf, byte(sum), byte(sum>>8))
				buf = append(buf, make([]byte, rapid.IntRange(0, 16).Draw(rt, "zeros"))...)
				buf = append(buf, rapid.SliceOfN(rapid.Byte(), 0, 9).Draw(rt, "tail")...)
				c := writeCase{Data: hex.EncodeToString(buf), Reset: 0}
				if rapid.Bool().Draw(rt, "split") {
					c.Cuts = []int{rapid.IntRange(0, len(buf)).Draw(rt, "cut")}
				}
				rec.Eval("embedded-sums", 1)
				rec.NonTrivial(hx.FP(c.Data))
				if msg, ok := checkWriteCase(c); !ok {
					fail("", msg, c)
				}
			}
		})

		// Large writes: lengths at and around powers of two up to 1 MiB in a
		// single Write (an encoded file's whole data section is checksummed
		// with one Write), and the same data in pieces cut around those
		// offsets. First a fixed list, then drawn lengths.
		nbig := int64(0)
		for _, base := range []int{256, 4096, 32768, 65536, 131072, 196608, 1 << 20} {
			for delta := -1; delta <= 1; delta++ {
				c := bigCase{Seed: uint64(base + delta), Len: base + delta, Cuts: []int{base / 2, base - 1}}
				nbig++
				if msg, ok := checkBigCase(c); !ok {
					rec.Fail("large-writes", "", msg, c)
					break
				}
			}
		}
		// very large single writes (tens of MiB: a long recording encoded in
		// one go), first shard only
		if hx.FirstShard() {
			huge := []int{1<<24 - 1, 1 << 24, 1<<24 + 1, 1<<26 + 7}
			if hx.Thorough() {
				huge = append(huge, 1<<23, 1<<25+1, 3<<24, 1<<27, 1<<28+3)
			}
			for _, n := range huge {
				c := bigCase{Seed: uint64(n), Len: n, Cuts: []int{n / 3, n - 8193}}
				nbig++
				rec.Class("single write of 16 MiB or more", 1)
				if msg, ok := checkBigCase(c); !ok {
					rec.Fail("large-writes", "", msg, c)
					break
				}
			}
		}
		rec.Eval("large-writes", nbig)
		bigCases, bigFailed := 0, false
		hx.RapidCheck(t, rec, "large-writes", func(rt *rapid.T, fail func(string, string, any)) {
			if bigCases >= hx.Pick(60, 3000) && !bigFailed {
				return
			}
			bigCases++
			c := bigCase{Seed: rapid.Uint64().Draw(rt, "seed")}
			if rapid.Bool().Draw(rt, "near-power") {
				c.Len = 1<<rapid.IntRange(8, 20).Draw(rt, "log2") + rapid.IntRange(-2, 2).Draw(rt, "delta")
			} else {
				c.Len = rapid.IntRange(0, 300000).Draw(rt, "len")
			}
			prev := 0
			for i, n := 0, rapid.IntRange(0, 3).Draw(rt, "ncuts"); i < n; i++ {
				cut := rapid.IntRange(prev, c.Len).Draw(rt, "cut")
				if rapid.Bool().Draw(rt, "cut-near-64k") && c.Len > 65536 {
					cut = (cut/65536)*65536 + rapid.IntRange(-1, 1).Draw(rt, "cutdelta")
					if cut < prev || cut > c.Len {
						cut = prev
					}
				}
				c.Cuts = append(c.Cuts, cut)
				prev = cut
			}
			rec.Eval("large-writes", 1)
			if c.Len >= 65536 {
				rec.Class("single write of 64 KiB or more", 1)
				rec.NonTrivial(hx.FP(fmt.Sprint(c)))
			}
			if msg, ok := checkBigCase(c); !ok {
				bigFailed = true
				fail("", msg, c)
			}
		})

		// Generated: byte strings x write partitions.
		hx.RapidCheck(t, rec, "partitions", func(rt *rapid.T, fail func(string, string, any)) {
			data := rapid.SliceOfN(rapid.Byte(), 0, 5000).Draw(rt, "data")
			if rapid.IntRange(0, 4).Draw(rt, "text") == 0 {
				// text with multi-byte characters (file names, product names)
				data = []byte(rapid.StringN(0, 200, -1).Draw(rt, "textdata"))
				rec.Class("data is UTF-8 text", 1)
			}
			if rapid.IntRange(0, 9).Draw(rt, "small") < 6 && len(data) > 40 {
				data = data[:rapid.IntRange(0, 40).Draw(rt, "len")]
			}
			ncuts := rapid.IntRange(0, 8).Draw(rt, "ncuts")
			cuts := make([]int, 0, ncuts)
			prev := 0
			for i := 0; i < ncuts; i++ {
				c := rapid.IntRange(prev, len(data)).Draw(rt, "cut")
				cuts = append(cuts, c)
				prev = c
			}
			c := writeCase{Data: hex.EncodeToString(data), Cuts: cuts, Reset: rapid.IntRange(0, len(data)).Draw(rt, "reset")}
			rec.Eval("partitions", 1)
			if len(cuts) >= 2 {
				rec.NonTrivial(hx.FP(fmt.Sprint(c)))
				rec.Class("partition>=3 pieces", 1)
			}
			if len(data) == 0 {
				rec.Class("empty data", 1)
			}
			if rec.WantSample() && len(data) < 30 && len(cuts) >= 2 {
				rec.Sample(c)
			}
			if msg, ok := checkWriteCase(c); !ok {
				fail("", msg, c)
			}
		})
	})
}
