//go:build verif

package c19

import (
	"fmt"
	"go/ast"
	"go/build"
	"go/importer"
	"go/parser"
	"go/token"
	"go/types"
	"os"
	"path/filepath"
	"sort"
	"strings"
)

const modPath = "github.com/tormoder/fit"

var generatedNames = map[string]bool{"messages.go": true, "types.go": true, "profile.go": true, "types_string.go": true}

// checker type-checks "generated files + hand-written library files" without
// the go tool: standard library from source, the repository's own
// sub-packages from their directories.
type checker struct {
	repo string
	fset *token.FileSet
	std  types.Importer
	pkgs map[string]*types.Package
}

func newChecker(repo string) *checker {
	fset := token.NewFileSet()
	return &checker{repo: repo, fset: fset, std: importer.ForCompiler(fset, "source", nil), pkgs: map[string]*types.Package{}}
}

func (c *checker) Import(path string) (*types.Package, error) {
	if p, ok := c.pkgs[path]; ok {
		return p, nil
	}
	if strings.HasPrefix(path, modPath+"/") {
		dir := filepath.Join(c.repo, strings.TrimPrefix(path, modPath+"/"))
		files, err := c.parseDir(dir, nil)
		if err != nil {
			return nil, err
		}
		conf := types.Config{Importer: c, Error: func(error) {}}
		p, _ := conf.Check(path, c.fset, files, nil)
		c.pkgs[path] = p
		return p, nil
	}
	return c.std.Import(path)
}

func (c *checker) parseDir(dir string, skip map[string]bool) ([]*ast.File, error) {
	ents, err := os.ReadDir(dir)
	if err != nil {
		return nil, err
	}
	var names []string
	for _, e := range ents {
		n := e.Name()
		if e.IsDir() || !strings.HasSuffix(n, ".go") || strings.HasSuffix(n, "_test.go") || skip[n] {
			continue
		}
		if ok, _ := build.Default.MatchFile(dir, n); !ok {
			continue
		}
		names = append(names, n)
	}
	sort.Strings(names)
	var files []*ast.File
	for _, n := range names {
		f, err := parser.ParseFile(c.fset, filepath.Join(dir, n), nil, parser.ParseComments)
		if err != nil {
			return nil, err
		}
		files = append(files, f)
	}
	return files, nil
}

// check type-checks the four generated files in genDir together with every
// hand-written (non-generated, non-test, build-constraint-free) file of the
// library and returns the errors located in generated files and the number of
// errors located elsewhere.
func (c *checker) check(genDir string) (genErrs []string, otherErrs int, err error) {
	files, err := c.parseDir(c.repo, generatedNames)
	if err != nil {
		return nil, 0, err
	}
	var genNames []string
	for n := range generatedNames {
		genNames = append(genNames, n)
	}
	sort.Strings(genNames)
	for _, n := range genNames {
		f, perr := parser.ParseFile(c.fset, filepath.Join(genDir, n), nil, parser.ParseComments)
		if perr != nil {
			genErrs = append(genErrs, fmt.Sprintf("%s does not parse: %v", n, perr))
			continue
		}
		files = append(files, f)
	}
	if len(genErrs) > 0 {
		return genErrs, 0, nil
	}
	conf := types.Config{Importer: c, Error: func(e error) {
		te, ok := e.(types.Error)
		if !ok {
			otherErrs++
			return
		}
		pos := te.Fset.Position(te.Pos)
		if filepath.Dir(pos.Filename) == genDir {
			if len(genErrs) < 10 {
				genErrs = append(genErrs, fmt.Sprintf("%s:%d: %s", filepath.Base(pos.Filename), pos.Line, te.Msg))
			}
		} else {
			otherErrs++
		}
	}}
	conf.Check(modPath, c.fset, files, nil)
	return genErrs, otherErrs, nil
}
