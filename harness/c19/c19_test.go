//go:build verif

package c19

import (
	"bytes"
	"encoding/json"
	"fmt"
	"go/ast"
	"go/parser"
	"go/token"
	"os"
	"os/exec"
	"path/filepath"
	"sort"
	"strconv"
	"strings"
	"sync"
	"syscall"
	"testing"

	"pgregory.net/rapid"

	"verif/gen"
	"verif/hx"
	"verif/wb"
)

var versions = []string{"16.20", "20.14", "20.27", "20.43", "21.40"}

// selCase is one product-profile selection.
type selCase struct {
	Version  string `json:"sdk_version"`
	Disabled []int  `json:"disabled_rows"` // Messages-sheet row numbers whose EXAMPLE cell is removed (after closure)
	ViaZip   bool   `json:"via_sdk_zip"`
	// ZipOverride: the zip is named for another release (FitSDKRelease_1.0.zip)
	// and the version is requested with -sdk, which overrides the name
	ZipOverride bool `json:"zip_named_otherwise_with_sdk_flag,omitempty"`
	Reenabled   int  `json:"reenabled_by_closure"`
	// HRST: run with -hrst, which keeps every heart_rate_source_type row
	// whatever its EXAMPLE cell says (those rows are then disabled in the
	// product profile on purpose, although enabled rows refer to them)
	HRST bool `json:"hrst_flag,omitempty"`
	// NameVersion: the zip is named for this release (a three-digit minor
	// version, as current SDK releases have) and no -sdk flag is given: the
	// generated code declares the version the name gives
	NameVersion string `json:"zip_named_for_version,omitempty"`
	// Group names the kind of rows a "kinds" selection disables.
	Group string `json:"rows_disabled_by_kind,omitempty"`
}

const hrstName = "heart_rate_source_type"

type book struct {
	ver   string
	w     *wb.Workbook
	rows  []*wb.Row
	msgs  []string
	types map[string]*wb.TypeDef
	byMsg map[string][]*wb.Row // field rows per message in order
}

var (
	booksOnce sync.Once
	books     map[string]*book
	booksErr  error
)

func loadBooks() (map[string]*book, error) {
	booksOnce.Do(func() {
		books = map[string]*book{}
		for _, v := range versions {
			w, err := wb.Open(filepath.Join(hx.RepoDir(), "cmd/fitgen/internal/profile/testdata", v+".xlsx"))
			if err != nil {
				booksErr = err
				return
			}
			b := &book{ver: v, w: w, types: w.TypeDefs(), byMsg: map[string][]*wb.Row{}}
			b.rows, b.msgs = w.Rows()
			for _, r := range b.rows {
				if !r.Sub {
					b.byMsg[r.Msg] = append(b.byMsg[r.Msg], r)
				}
			}
			books[v] = b
		}
	})
	return books, booksErr
}

// deps returns the field rows that row r needs enabled when r itself is
// enabled: the targets of its components and (for sub-fields) its reference
// fields, all in the same message.
func (b *book) deps(r *wb.Row) []*wb.Row {
	var out []*wb.Row
	find := func(name string) *wb.Row {
		for _, f := range b.byMsg[r.Msg] {
			if f.Name == name {
				return f
			}
		}
		return nil
	}
	for _, c := range r.Comps {
		if f := find(c); f != nil {
			out = append(out, f)
		}
	}
	if r.Sub {
		for _, n := range r.RefNames {
			if f := find(n); f != nil {
				out = append(out, f)
			}
		}
	}
	return out
}

// closeSelection re-enables every row that an enabled row depends on.
func (b *book) closeSelection(disabled map[int]bool) (reenabled int) {
	for changed := true; changed; {
		changed = false
		for _, r := range b.rows {
			if !r.Enabled || disabled[r.Line] {
				continue
			}
			if r.Sub && (disabled[r.Parent.Line] || !r.Parent.Enabled) {
				continue
			}
			for _, d := range b.deps(r) {
				if disabled[d.Line] {
					delete(disabled, d.Line)
					reenabled++
					changed = true
				}
			}
		}
	}
	return
}

// closeDown disables every row that depends on a disabled row (the other way
// to obtain a legal selection: the chosen rows stay disabled).
func (b *book) closeDown(disabled map[int]bool) {
	for changed := true; changed; {
		changed = false
		for _, r := range b.rows {
			if !r.Enabled || disabled[r.Line] {
				continue
			}
			if r.Sub && (disabled[r.Parent.Line] || !r.Parent.Enabled) {
				continue
			}
			for _, d := range b.deps(r) {
				if disabled[d.Line] || !d.Enabled {
					disabled[r.Line] = true
					changed = true
					break
				}
			}
		}
	}
}

type genField struct {
	num, sindex, code, length int
}

// parseGenerated extracts struct field names per message type and the _fields
// table from generated messages.go / profile.go.
func parseGenerated(dir string) (structs map[string][]string, table map[string]map[int]genField, major, minor string, sdkComment string, err error) {
	fset := token.NewFileSet()
	structs = map[string][]string{}
	table = map[string]map[int]genField{}
	mf, err := parser.ParseFile(fset, filepath.Join(dir, "messages.go"), nil, 0)
	if err != nil {
		return
	}
	for _, d := range mf.Decls {
		gd, ok := d.(*ast.GenDecl)
		if !ok || gd.Tok != token.TYPE {
			continue
		}
		for _, sp := range gd.Specs {
			ts := sp.(*ast.TypeSpec)
			st, ok := ts.Type.(*ast.StructType)
			if !ok || !strings.HasSuffix(ts.Name.Name, "Msg") {
				continue
			}
			names := []string{}
			for _, f := range st.Fields.List {
				for _, n := range f.Names {
					names = append(names, n.Name)
				}
			}
			structs[ts.Name.Name] = names
		}
	}
	pf, err := parser.ParseFile(fset, filepath.Join(dir, "profile.go"), nil, parser.ParseComments)
	if err != nil {
		return
	}
	for _, cg := range pf.Comments {
		for _, c := range cg.List {
			if strings.HasPrefix(c.Text, "// SDK Version:") {
				sdkComment = strings.TrimSpace(strings.TrimPrefix(c.Text, "// SDK Version:"))
			}
		}
	}
	lit := func(e ast.Expr) (int, bool) {
		switch v := e.(type) {
		case *ast.BasicLit:
			n, err := strconv.ParseInt(v.Value, 0, 64)
			return int(n), err == nil
		case *ast.CallExpr:
			if len(v.Args) == 1 {
				if b, ok := v.Args[0].(*ast.BasicLit); ok {
					n, err := strconv.ParseInt(b.Value, 0, 64)
					return int(n), err == nil
				}
			}
		}
		return 0, false
	}
	for _, d := range pf.Decls {
		gd, ok := d.(*ast.GenDecl)
		if !ok {
			continue
		}
		for _, sp := range gd.Specs {
			vs, ok := sp.(*ast.ValueSpec)
			if !ok {
				continue
			}
			for i, n := range vs.Names {
				if i >= len(vs.Values) {
					continue
				}
				switch n.Name {
				case "ProfileMajorVersion":
					if b, ok := vs.Values[i].(*ast.BasicLit); ok {
						major = b.Value
					}
				case "ProfileMinorVersion":
					if b, ok := vs.Values[i].(*ast.BasicLit); ok {
						minor = b.Value
					}
				case "_fields":
					cl, ok := vs.Values[i].(*ast.CompositeLit)
					if !ok {
						continue
					}
					for _, e := range cl.Elts {
						kv, ok := e.(*ast.KeyValueExpr)
						if !ok {
							continue
						}
						key, ok := kv.Key.(*ast.Ident)
						if !ok {
							continue
						}
						m := map[int]genField{}
						table[key.Name] = m
						inner, ok := kv.Value.(*ast.CompositeLit)
						if !ok {
							continue
						}
						for _, fe := range inner.Elts {
							fkv, ok := fe.(*ast.KeyValueExpr)
							if !ok {
								continue
							}
							num, ok1 := lit(fkv.Key)
							fl, ok2 := fkv.Value.(*ast.CompositeLit)
							if !ok1 || !ok2 || len(fl.Elts) != 4 {
								err = fmt.Errorf("unexpected _fields entry shape under %s", key.Name)
								return
							}
							var g genField
							var oks [4]bool
							g.sindex, oks[0] = lit(fl.Elts[0])
							g.num, oks[1] = lit(fl.Elts[1])
							g.code, oks[2] = lit(fl.Elts[2])
							g.length, oks[3] = lit(fl.Elts[3])
							if !(oks[0] && oks[1] && oks[2] && oks[3]) {
								err = fmt.Errorf("non-literal _fields entry under %s", key.Name)
								return
							}
							if _, dup := m[num]; dup {
								err = fmt.Errorf("_fields[%s] lists field %d twice", key.Name, num)
								return
							}
							m[num] = g
						}
					}
				}
			}
		}
	}
	return
}

var (
	fitgenOnce sync.Once
	fitgenBin  string
	fitgenErr  error
	checkers   = make(chan *checker, 8)
)

func buildFitgen() (string, error) {
	fitgenOnce.Do(func() {
		dir := os.Getenv("VERIF_BUILD")
		if dir == "" {
			dir = os.TempDir()
		}
		fitgenBin = filepath.Join(dir, fmt.Sprintf("fitgen-%d", os.Getpid()))
		cmd := exec.Command("go", "build", "-o", fitgenBin, "./cmd/fitgen")
		cmd.Dir = hx.RepoDir()
		if out, err := cmd.CombinedOutput(); err != nil {
			fitgenErr = fmt.Errorf("go build ./cmd/fitgen: %v\n%s", err, out)
		}
		for i := 0; i < cap(checkers); i++ {
			checkers <- newChecker(hx.RepoDir())
		}
	})
	return fitgenBin, fitgenErr
}

func runFitgen(bin, workDir, input, ver, out string, viaZip, override, hrst bool, extra ...string) (string, error) {
	args := append([]string{}, extra...)
	if hrst {
		args = append(args, "-hrst")
	}
	if !viaZip || override {
		args = append(args, "-sdk", ver)
	}
	args = append(args, input, out)
	cmd := exec.Command(bin, args...)
	if !filepath.IsAbs(out) {
		// a relative output directory, resolved against the command's
		// working directory (= the directory the outputs live in)
		cmd.Dir = workDir
		// ... and, where the machine has one, a temporary directory on
		// another filesystem than the output (TMPDIR on tmpfs, sources on disk)
		if td := otherFilesystem(workDir); td != "" {
			cmd.Env = append(os.Environ(), "TMPDIR="+td)
		}
	}
	var buf bytes.Buffer
	cmd.Stdout = &buf
	cmd.Stderr = &buf
	err := cmd.Run()
	return buf.String(), err
}

var (
	otherFSOnce sync.Once
	otherFSDir  string
)

// otherFilesystem returns a writable directory on a different filesystem than
// ref ("" if the machine has none among the usual candidates).
func otherFilesystem(ref string) string {
	otherFSOnce.Do(func() {
		var rs syscall.Stat_t
		if syscall.Stat(ref, &rs) != nil {
			return
		}
		for _, cand := range []string{"/dev/shm", "/run/shm", "/tmp", "/var/tmp", "/run"} {
			var cs syscall.Stat_t
			if syscall.Stat(cand, &cs) != nil || cs.Dev == rs.Dev {
				continue
			}
			d, err := os.MkdirTemp(cand, "verif-c19-tmp-")
			if err != nil {
				continue
			}
			otherFSDir = d
			return
		}
	})
	return otherFSDir
}

// checkSelection runs the real command twice on the selection and checks its
// output. labels receives facts about the selection.
func checkSelection(c selCase, labels map[string]int) (string, bool) {
	bks, err := loadBooks()
	if err != nil {
		return "HARNESS: " + err.Error(), false
	}
	b := bks[c.Version]
	if b == nil {
		return "HARNESS: unknown version", false
	}
	bin, err := buildFitgen()
	if err != nil {
		return "HARNESS: " + err.Error(), false
	}
	disabled := map[int]bool{}
	for _, l := range c.Disabled {
		disabled[l] = true
	}
	tmp, err := os.MkdirTemp(os.Getenv("VERIF_BUILD"), "c19-")
	if err != nil {
		return "HARNESS: " + err.Error(), false
	}
	defer os.RemoveAll(tmp)
	xlsx := filepath.Join(tmp, "Profile.xlsx")
	if err := b.w.WriteDisabled(xlsx, disabled); err != nil {
		return "HARNESS: " + err.Error(), false
	}
	input := xlsx
	if c.ViaZip {
		input = filepath.Join(tmp, "FitSDKRelease_"+c.Version+".00.zip")
		if c.ZipOverride {
			input = filepath.Join(tmp, "FitSDKRelease_1.0.zip")
		} else if c.NameVersion != "" {
			input = filepath.Join(tmp, "FitSDKRelease_"+c.NameVersion+".00.zip")
		}
		if err := wb.WriteSDKZip(input, xlsx); err != nil {
			return "HARNESS: " + err.Error(), false
		}
	}
	outs := []string{filepath.Join(tmp, "out1"), filepath.Join(tmp, "out2")}
	for i, o := range outs {
		os.MkdirAll(o, 0o755)
		if i == 1 {
			// the second run writes over existing, longer generated files
			// (the documented use: the output directory is the library
			// tree, which already holds the previous output)
			for _, n := range []string{"messages.go", "types.go", "profile.go", "types_string.go"} {
				old, _ := os.ReadFile(filepath.Join(hx.RepoDir(), n))
				for len(old) < 1500000 {
					old = append(old, "// stale line of an earlier, longer output\n"...)
				}
				if err := os.WriteFile(filepath.Join(o, n), old, 0o644); err != nil {
					return "HARNESS: " + err.Error(), false
				}
			}
			labels["second run over existing longer files"]++
		}
		inArg := input
		if i == 1 {
			// ... and reaches its input through a symbolic link
			// (same file name: the SDK version is read off a zip's name)
			os.MkdirAll(filepath.Join(tmp, "linked"), 0o755)
			link := filepath.Join(tmp, "linked", filepath.Base(input))
			if os.Symlink(input, link) == nil {
				inArg = link
			}
		}
		outArg := o
		if i == 1 {
			// the second run names its output directory relative to the
			// working directory (the way the command is used from a shell
			// or a go:generate line)
			outArg = filepath.Base(o)
		}
		log, err := runFitgen(bin, tmp, inArg, c.Version, outArg, c.ViaZip, c.ZipOverride, c.HRST)
		if err != nil {
			tail := log
			if len(tail) > 1500 {
				tail = tail[len(tail)-1500:]
			}
			return fmt.Sprintf("fitgen failed (%v) on a selection in which no enabled row depends on a disabled one:\n%s", err, tail), false
		}
	}
	names := []string{"messages.go", "types.go", "profile.go", "types_string.go"}
	// third run, with -verbose, into a directory that holds the output of the
	// first run except that one of the four files is missing, cut in half or
	// has grown a line (an interrupted earlier run, a merge conflict, an edit
	// by hand): the run repairs it, and what it prints does not change what
	// it writes
	{
		o := filepath.Join(tmp, "out3")
		os.MkdirAll(o, 0o755)
		victim := names[(len(c.Disabled)+len(c.Version)+int(c.Version[len(c.Version)-1]))%len(names)]
		how := (len(c.Disabled) / 4) % 3
		for _, n := range names {
			data, err := os.ReadFile(filepath.Join(outs[0], n))
			if err != nil {
				return fmt.Sprintf("fitgen did not write %s (%v)", n, err), false
			}
			if n == victim {
				switch how {
				case 0:
					continue // missing
				case 1:
					data = data[:len(data)/2]
				default:
					data = append(data, "// edited by hand\n"...)
				}
			}
			if err := os.WriteFile(filepath.Join(o, n), data, 0o644); err != nil {
				return "HARNESS: " + err.Error(), false
			}
		}
		log, err := runFitgen(bin, tmp, input, c.Version, o, c.ViaZip, c.ZipOverride, c.HRST, "-verbose")
		if err != nil {
			tail := log
			if len(tail) > 1500 {
				tail = tail[len(tail)-1500:]
			}
			return fmt.Sprintf("fitgen -verbose failed (%v) writing into a directory that holds an earlier output with a damaged %s:\n%s", err, victim, tail), false
		}
		labels["third run with -verbose over an earlier output with one damaged file"]++
		for _, n := range names {
			a, _ := os.ReadFile(filepath.Join(outs[0], n))
			bb, err := os.ReadFile(filepath.Join(o, n))
			if err != nil {
				return fmt.Sprintf("fitgen -verbose, run over an earlier output whose %s was %s, exits successfully without writing %s (%v)", victim, []string{"missing", "cut in half", "edited"}[how], n, err), false
			}
			if !bytes.Equal(a, bb) {
				return fmt.Sprintf("fitgen -verbose, run over an earlier output whose %s was %s, leaves a %s that differs from the first run's (%d vs %d bytes, first difference at byte %d)", victim, []string{"missing", "cut in half", "edited"}[how], n, len(bb), len(a), firstDiff(a, bb)), false
			}
		}
	}
	for _, n := range names {
		a, err1 := os.ReadFile(filepath.Join(outs[0], n))
		bb, err2 := os.ReadFile(filepath.Join(outs[1], n))
		if err1 != nil || err2 != nil {
			return fmt.Sprintf("fitgen did not write %s (%v %v)", n, err1, err2), false
		}
		if !bytes.Equal(a, bb) {
			return fmt.Sprintf("two runs on the same input wrote different %s (%d bytes into an empty directory vs %d bytes over an existing file; first difference at byte %d)", n, len(a), len(bb), firstDiff(a, bb)), false
		}
	}
	structs, table, major, minor, sdkc, err := parseGenerated(outs[0])
	if err != nil {
		return "generated code is not parsable: " + err.Error(), false
	}
	declared := c.Version
	if c.ViaZip && !c.ZipOverride && c.NameVersion != "" {
		declared = c.NameVersion
	}
	vp := strings.Split(declared, ".")
	if major != vp[0] || minor != strconv.Itoa(atoi(vp[1])) || !strings.HasPrefix(sdkc, declared) {
		return fmt.Sprintf("requested SDK %s, generated code declares major=%s minor=%s, comment %q", declared, major, minor, sdkc), false
	}
	// per message: struct fields and table entries = enabled rows
	nums := wb.MesgNums(b.types)
	for _, msg := range b.msgs {
		sname := wb.CamelCase(msg) + "Msg"
		var want []wb.FieldSpec
		for _, r := range b.byMsg[msg] {
			if (!r.Enabled || disabled[r.Line]) && !(c.HRST && r.Name == hrstName) {
				continue
			}
			fs, err := wb.Resolve(r, b.types)
			if err != nil {
				return "HARNESS: " + err.Error(), false
			}
			want = append(want, fs)
		}
		got, ok := structs[sname]
		if !ok {
			return fmt.Sprintf("no struct %s generated for workbook message %s", sname, msg), false
		}
		if len(got) != len(want) {
			return fmt.Sprintf("%s has %d fields %v, the selection enables %d rows of %s", sname, len(got), got, len(want), msg), false
		}
		for i, fs := range want {
			if got[i] != fs.GoName {
				return fmt.Sprintf("%s field %d is %s, the %d-th enabled row of %s is %s (row %d)", sname, i, got[i], i, msg, fs.GoName, fs.Row.Line), false
			}
		}
		if _, hasNum := nums[msg]; !hasNum {
			continue
		}
		key := "MesgNum" + wb.CamelCase(msg)
		tab, ok := table[key]
		if !ok {
			return fmt.Sprintf("_fields has no entry %s", key), false
		}
		if len(tab) != len(want) {
			return fmt.Sprintf("_fields[%s] has %d entries, the selection enables %d rows", key, len(tab), len(want)), false
		}
		for i, fs := range want {
			g, ok := tab[fs.Num]
			if !ok {
				return fmt.Sprintf("_fields[%s] has no entry for field %d (%s, row %d)", key, fs.Num, fs.GoName, fs.Row.Line), false
			}
			if g.sindex != i || g.num != fs.Num || g.code != fs.Code() || g.length != fs.Length {
				return fmt.Sprintf("_fields[%s][%d] = {%d, %d, types.Fit(%d), %d}; row %d (%s) needs {%d, %d, types.Fit(%d), %d} (base %#02x array=%v kind=%d)",
					key, fs.Num, g.sindex, g.num, g.code, g.length, fs.Row.Line, fs.GoName, i, fs.Num, fs.Code(), fs.Length, fs.Base, fs.Array, fs.Kind), false
			}
		}
		labels["table-entries-checked"] += len(want)
	}
	// nothing generated for messages that are not in the workbook
	for sname := range structs {
		found := false
		for _, msg := range b.msgs {
			if wb.CamelCase(msg)+"Msg" == sname {
				found = true
			}
		}
		if !found {
			return fmt.Sprintf("struct %s generated but the workbook has no such message", sname), false
		}
	}
	// compiles together with the support code: no type error in a generated file
	ck := <-checkers
	genErrs, other, err := ck.check(outs[0])
	checkers <- ck
	if err != nil {
		return "HARNESS: type check: " + err.Error(), false
	}
	labels["type-errors-in-hand-written-files(not judged)"] += other
	if len(genErrs) > 0 {
		return "generated code does not type-check with the library's support code:\n" + strings.Join(genErrs, "\n"), false
	}
	return "", true
}

func atoi(s string) int { n, _ := strconv.Atoi(s); return n }

func firstDiff(a, b []byte) int {
	for i := 0; i < len(a) && i < len(b); i++ {
		if a[i] != b[i] {
			return i
		}
	}
	if len(a) < len(b) {
		return len(a)
	}
	return len(b)
}

func drawSelection(d gen.D, b *book) selCase {
	c := selCase{Version: b.ver, ViaZip: d.Bool("zip")}
	if c.ViaZip && d.Int(0, 2, "zipover") == 0 {
		c.ZipOverride = true
	}
	disabled := map[int]bool{}
	mode := d.Int(0, 3, "mode")
	var enabledRows []*wb.Row
	for _, r := range b.rows {
		if r.Enabled {
			enabledRows = append(enabledRows, r)
		}
	}
	switch mode {
	case 0: // a few rows
		for k := d.Int(1, 6, "k"); k > 0; k-- {
			disabled[enabledRows[d.Int(0, len(enabledRows)-1, "row")].Line] = true
		}
	case 1: // a share of all rows
		pct := d.Int(5, 60, "pct")
		for _, r := range enabledRows {
			if d.Int(0, 99, "p") < pct {
				disabled[r.Line] = true
			}
		}
	case 2: // most of one message
		msg := b.msgs[d.Int(0, len(b.msgs)-1, "msg")]
		for _, r := range b.rows {
			if r.Msg == msg && r.Enabled && d.Int(0, 9, "keep") < 8 {
				disabled[r.Line] = true
			}
		}
	default: // rows involved in dependencies
		for _, r := range enabledRows {
			if (len(r.Comps) > 0 || r.Sub || len(r.Subs) > 0) && d.Int(0, 9, "dep") < 4 {
				disabled[r.Line] = true
			}
			for _, dp := range b.deps(r) {
				if d.Int(0, 9, "dept") < 3 {
					disabled[dp.Line] = true
				}
			}
		}
	}
	if c.ViaZip && !c.ZipOverride && d.Int(0, 3, "namever") == 0 {
		vp := strings.Split(b.ver, ".")
		c.NameVersion = vp[0] + "." + []string{"1" + vp[1], "115", "171", "100"}[d.Int(0, 3, "nameversel")]
	}
	c.Reenabled = b.closeSelection(disabled)
	if d.Int(0, 3, "hrst") == 0 {
		// with -hrst the heart_rate_source_type rows may be disabled although
		// enabled rows refer to them: the flag keeps them
		for _, r := range b.rows {
			if !r.Sub && r.Name == hrstName && r.Enabled {
				c.HRST = true
				disabled[r.Line] = true
			}
		}
	}
	for l := range disabled {
		c.Disabled = append(c.Disabled, l)
	}
	sort.Ints(c.Disabled)
	return c
}

func TestC19(t *testing.T) {
	hx.Main(t, "C19", func(rec *hx.Recorder) {
		defer func() {
			if fitgenBin != "" {
				os.Remove(fitgenBin)
			}
			if otherFSDir != "" {
				os.RemoveAll(otherFSDir)
			}
		}()
		if rp, ok := hx.LoadReplay(); ok {
			var c selCase
			json.Unmarshal(rp.Case, &c)
			rec.Eval("replay", 1)
			if msg, ok := checkSelection(c, map[string]int{}); !ok {
				rec.Fail(rp.Sub, "", msg, c)
			}
			return
		}
		bks, err := loadBooks()
		if err != nil {
			rec.Fail("workbooks", "HARNESS", err.Error(), selCase{})
			return
		}
		// stock workbooks, both input forms, in parallel
		var wg sync.WaitGroup
		for _, v := range versions {
			for form := 0; form < 4; form++ {
				wg.Add(1)
				go func(v string, form int) {
					defer wg.Done()
					zip := form > 0
					c := selCase{Version: v, ViaZip: zip, ZipOverride: form == 2}
					if form == 3 {
						// the zip is named for a release with a three-digit
						// minor version
						vp := strings.Split(v, ".")
						c.NameVersion = vp[0] + ".1" + vp[1]
					}
					labels := map[string]int{}
					if msg, ok := checkSelection(c, labels); !ok {
						rec.Fail("stock", "", fmt.Sprintf("SDK %s (zip=%v): %s", v, zip, msg), c)
					}
					rec.Eval("stock", 1)
					rec.Class("table-entries-checked", int64(labels["table-entries-checked"]))
				}(v, form)
			}
		}
		wg.Wait()

		// cover: three selections per workbook that together disable every
		// enabled row at least once (row number mod 3, plus everything that
		// depends on a disabled row)
		var cover []selCase
		for _, v := range versions {
			b := bks[v]
			for i := 0; i < 3; i++ {
				disabled := map[int]bool{}
				for _, r := range b.rows {
					if r.Enabled && r.Line%3 == i {
						disabled[r.Line] = true
					}
				}
				b.closeDown(disabled)
				c := selCase{Version: v, ViaZip: i >= 1, ZipOverride: i == 2}
				if i == 0 {
					// the selection that keeps the rows referring to
					// heart_rate_source_type but not that row itself is only
					// valid with -hrst
					for _, r := range b.rows {
						if !r.Sub && r.Name == hrstName && r.Enabled && !disabled[r.Line] {
							c.HRST = true
							disabled[r.Line] = true
						}
					}
				}
				for l := range disabled {
					c.Disabled = append(c.Disabled, l)
				}
				sort.Ints(c.Disabled)
				cover = append(cover, c)
			}
		}
		sem := make(chan struct{}, 8)
		for _, c := range cover {
			wg.Add(1)
			go func(c selCase) {
				defer wg.Done()
				sem <- struct{}{}
				defer func() { <-sem }()
				labels := map[string]int{}
				if msg, ok := checkSelection(c, labels); !ok {
					rec.Fail("cover", "", fmt.Sprintf("SDK %s, %d rows disabled: %s", c.Version, len(c.Disabled), msg), c)
				}
				rec.Eval("cover", 1)
				if c.HRST {
					rec.Class("run with -hrst and the heart_rate_source_type row disabled", 1)
				}
				rec.NonTrivial(hx.FP(fmt.Sprint(c.Version, c.Disabled)))
				rec.Class("table-entries-checked", int64(labels["table-entries-checked"]))
			}(c)
		}
		wg.Wait()
		rec.Exhaustive("cover: every enabled row of every bundled workbook is disabled in at least one of 3 selections per workbook")

		// kinds: per workbook, the selections that disable every row of one
		// workbook type (all date_time rows, all strings, all byte rows ...),
		// every array row, or every row with components - together with
		// whatever depends on those rows. What the generated sources need
		// (imports, helpers) must follow what the enabled rows need.
		kindBooks := []string{"21.40", "16.20"}
		if hx.Thorough() {
			kindBooks = versions
		}
		var kinds []selCase
		for _, v := range kindBooks {
			b := bks[v]
			groups := map[string][]int{}
			var order []string
			add := func(k string, line int) {
				if _, ok := groups[k]; !ok {
					order = append(order, k)
				}
				groups[k] = append(groups[k], line)
			}
			baseLike := map[string]bool{"date_time": true, "local_date_time": true, "string": true, "byte": true, "bool": true, "float32": true, "float64": true,
				"enum": true, "uint8": true, "uint16": true, "uint32": true, "uint64": true, "sint8": true, "sint16": true, "sint32": true, "sint64": true,
				"uint8z": true, "uint16z": true, "uint32z": true, "uint64z": true}
			for _, r := range b.rows {
				if !r.Enabled {
					continue
				}
				if baseLike[r.Type] {
					add("type "+r.Type, r.Line)
				}
				if r.Array != "" {
					add("arrays", r.Line)
				}
				if len(r.Comps) > 0 {
					add("components", r.Line)
				}
			}
			seen := map[string]bool{}
			for _, k := range order {
				disabled := map[int]bool{}
				for _, l := range groups[k] {
					disabled[l] = true
				}
				b.closeDown(disabled)
				c := selCase{Version: v, ViaZip: len(kinds)%2 == 1, Group: k}
				for l := range disabled {
					c.Disabled = append(c.Disabled, l)
				}
				sort.Ints(c.Disabled)
				if key := fmt.Sprint(c.Disabled); !seen[key] {
					seen[key] = true
					kinds = append(kinds, c)
				}
			}
		}
		for _, c := range kinds {
			wg.Add(1)
			go func(c selCase) {
				defer wg.Done()
				sem <- struct{}{}
				defer func() { <-sem }()
				labels := map[string]int{}
				if msg, ok := checkSelection(c, labels); !ok {
					rec.Fail("kinds", "", fmt.Sprintf("SDK %s, every row of kind %q disabled (%d rows with what depends on them): %s", c.Version, c.Group, len(c.Disabled), msg), c)
				}
				rec.Eval("kinds", 1)
				rec.NonTrivial(hx.FP(fmt.Sprint(c.Version, c.Disabled)))
				rec.Class("table-entries-checked", int64(labels["table-entries-checked"]))
			}(c)
		}
		wg.Wait()

		hx.RapidCheck(t, rec, "selections", func(rt *rapid.T, fail func(string, string, any)) {
			d := gen.D{T: rt}
			// several selections per rapid case, checked in parallel
			n := 8
			cases := make([]selCase, n)
			for i := range cases {
				b := bks[versions[d.Int(0, len(versions)-1, "ver")]]
				cases[i] = drawSelection(d, b)
			}
			msgs := make([]string, n)
			oks := make([]bool, n)
			lbls := make([]map[string]int, n)
			var wg sync.WaitGroup
			for i := range cases {
				wg.Add(1)
				go func(i int) {
					defer wg.Done()
					lbls[i] = map[string]int{}
					msgs[i], oks[i] = checkSelection(cases[i], lbls[i])
				}(i)
			}
			wg.Wait()
			for i, c := range cases {
				rec.Eval("selections", 1)
				rec.Class("table-entries-checked", int64(lbls[i]["table-entries-checked"]))
				rec.Class("type-errors-in-hand-written-files(not judged)", int64(lbls[i]["type-errors-in-hand-written-files(not judged)"]))
				rec.Class("sdk "+c.Version, 1)
				if c.HRST {
					rec.Class("run with -hrst and the heart_rate_source_type row disabled", 1)
				}
				if c.ViaZip {
					rec.Class("input: SDK zip", 1)
				} else {
					rec.Class("input: xlsx + -sdk", 1)
				}
				if len(c.Disabled) > 0 && c.Reenabled > 0 {
					rec.NonTrivial(hx.FP(fmt.Sprint(c.Version, c.Disabled)))
					rec.Class("non-trivial: rows disabled and a dependency re-enabled by closure", 1)
				}
				if rec.WantSample() && len(c.Disabled) > 0 && len(c.Disabled) < 12 {
					rec.Sample(c)
				}
				if !oks[i] {
					fail("", fmt.Sprintf("SDK %s, %d rows disabled (zip=%v): %s", c.Version, len(c.Disabled), c.ViaZip, msgs[i]), c)
				}
			}
		})
	})
}
