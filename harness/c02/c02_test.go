//go:build verif

package c02

import (
	"bytes"
	"encoding/json"
	"fmt"
	"io"
	"os"
	"strconv"
	"strings"
	"testing"

	"github.com/tormoder/fit"
	"pgregory.net/rapid"

	"verif/firstuse"
	"verif/fitmodel"
	"verif/gen"
	"verif/hx"
	"verif/oracle"
	"verif/prof"
)

type streamCase struct {
	FileType int              `json:"file_type"`
	Stream   *fitmodel.Stream `json:"stream"`
	Text     string           `json:"text"`
	Chunk    *gen.Chunking    `json:"chunking,omitempty"` // how the bytes are handed to Decode (nil: whole)
	// Chained: the stream is decoded with DecodeChained as the second file of
	// a chain whose first file (chainHead) leaves definitions on local types
	// 0-5 and a timestamp reference behind; the second File returned is
	// judged
	Chained bool `json:"as_second_file_of_a_chain,omitempty"`
}

// chainHead is the first member of the chain of a Chained case.
func chainHead() *fitmodel.Stream {
	s := &fitmodel.Stream{HeaderSize: 14, Proto: 0x20, Recs: []fitmodel.Rec{
		{IsDef: true, Local: 0, Global: 0, Fields: []fitmodel.FieldDef{{Num: 0, Size: 1, Base: 0}}}, {Local: 0, Raw: []byte{4}},
	}}
	for l := byte(0); l < 6; l++ {
		s.Recs = append(s.Recs,
			fitmodel.Rec{IsDef: true, Local: l, BigEndian: l%2 == 1, Global: 20, Fields: []fitmodel.FieldDef{{Num: 253, Size: 4, Base: 0x86}, {Num: 3, Size: 1, Base: 2}}},
			fitmodel.Rec{Local: l, Raw: append(fitmodel.PutWireUint(uint64(0x3B9ACA00)+uint64(l)*40, 4, l%2 == 1), 100+l)})
	}
	// a compressed record of a message without a timestamp field of its own
	s.Recs = append(s.Recs,
		fitmodel.Rec{IsDef: true, Local: 3, Global: 20, Fields: []fitmodel.FieldDef{{Num: 3, Size: 1, Base: 2}}},
		fitmodel.Rec{Local: 3, Compressed: true, TimeOffset: 9, Raw: []byte{77}})
	return s
}

func mkCase(ft fit.FileType, s *fitmodel.Stream) streamCase {
	return streamCase{FileType: int(ft), Stream: s, Text: s.String()}
}

// checkStream decodes s and compares every field of every message with the
// model. It returns a description of the first disagreements.
func checkStream(rec *hx.Recorder, c streamCase, labels map[string]int) (sig, msg string, ok bool) {
	tab := prof.Table()
	ip := fitmodel.Interpret(c.Stream, tab)
	if ip.FailRec >= 0 {
		return "HARNESS", "generator produced an uninterpretable stream: " + ip.FailWhy, false
	}
	data := c.Stream.Bytes()
	var f *fit.File
	var err error
	if p := oracle.Catch(func() {
		switch {
		case c.Chained:
			var fs []*fit.File
			chain := append(chainHead().Bytes(), data...)
			if c.Chunk != nil {
				fs, err = fit.DecodeChained(gen.NewReader(chain, *c.Chunk))
			} else {
				fs, err = fit.DecodeChained(bytes.NewReader(chain))
			}
			if err == nil && len(fs) != 2 {
				err = fmt.Errorf("DecodeChained returned %d files for a chain of 2", len(fs))
			}
			if len(fs) == 2 {
				f = fs[1]
			}
		case c.Chunk != nil:
			f, err = fit.Decode(gen.NewReader(data, *c.Chunk))
		default:
			f, err = fit.Decode(bytes.NewReader(data))
		}
	}); p != nil {
		return "", fmt.Sprintf("Decode panicked: %v\nstream: %s", p, c.Text), false
	}
	if err != nil {
		return "", fmt.Sprintf("Decode rejected a well-formed, profile-compatible stream: %v\nstream: %s", err, c.Text), false
	}
	exp := oracle.Expect(ip, fit.FileType(c.FileType), true)
	diffs, compared, und := oracle.Compare(f, exp, oracle.CompareOpts{})
	rec.Undecided(int64(und))
	_ = compared
	var real []oracle.Diff
	for _, d := range diffs {
		if d.AccDst {
			// accumulated destinations are compared by C18
			rec.Excluded("accumulated-destinations-belong-to-C18", 1)
			continue
		}
		real = append(real, d)
	}
	for k, v := range ip.Labels {
		labels[k] += v
	}
	for k, v := range exp.Labels {
		labels[k] += v
	}
	if len(real) > 0 {
		var sb strings.Builder
		for i, d := range real {
			if i == 6 {
				fmt.Fprintf(&sb, "… and %d more\n", len(real)-6)
				break
			}
			sb.WriteString(d.String() + "\n")
		}
		return "", fmt.Sprintf("%sstream: %s", sb.String(), c.Text), false
	}
	return "", "", true
}

func nonTrivial(l map[string]int) bool {
	return l["be-multibyte"] > 0 || l["narrow"] > 0 || l["negative"] > 0 || l["array"] > 0 || l["string"] > 0 ||
		l["string-unterminated"] > 0 || l["coord"] > 0 || l["time"] > 0
}

// stripUnknown removes unknown messages, unknown fields and developer fields
// from a stream specification.
func stripUnknown(s *fitmodel.Stream) (*fitmodel.Stream, int) {
	tab := prof.Table()
	out := &fitmodel.Stream{HeaderSize: s.HeaderSize, Proto: s.Proto, ProfileVer: s.ProfileVer, HdrCRCZero: s.HdrCRCZero}
	var slots [16]*fitmodel.Rec // original definitions
	var keep [16][]bool         // which fields of the original definition are kept
	var dropMsg [16]bool
	removed := 0
	for i := range s.Recs {
		r := s.Recs[i]
		if r.IsDef {
			l := r.Local & 0x0F
			orig := r
			slots[l] = &orig
			mi := tab.Msgs[r.Global]
			if mi == nil {
				dropMsg[l] = true
				removed++
				continue
			}
			dropMsg[l] = false
			nr := fitmodel.Rec{IsDef: true, Local: r.Local, BigEndian: r.BigEndian, Global: r.Global}
			keep[l] = make([]bool, len(r.Fields))
			for j, fd := range r.Fields {
				if mi.Fields[fd.Num] != nil {
					keep[l][j] = true
					nr.Fields = append(nr.Fields, fd)
				} else {
					removed++
				}
			}
			if r.HasDev {
				removed++
			}
			out.Recs = append(out.Recs, nr)
			continue
		}
		l := r.Local & 0x0F
		if r.Compressed {
			l = r.Local & 3
		}
		if dropMsg[l] || slots[l] == nil {
			continue
		}
		nr := fitmodel.Rec{Local: r.Local, Compressed: r.Compressed, TimeOffset: r.TimeOffset}
		off := 0
		for j, fd := range slots[l].Fields {
			if keep[l][j] {
				nr.Raw = append(nr.Raw, r.Raw[off:off+int(fd.Size)]...)
			}
			off += int(fd.Size)
		}
		out.Recs = append(out.Recs, nr)
	}
	return out, removed
}

func skipAcc(msg, field string) bool {
	return msg == "RecordMsg" && (field == "Distance" || field == "TotalCycles" || field == "AccumulatedPower")
}

func checkNeighbours(c streamCase) (string, bool, bool) {
	stripped, removed := stripUnknown(c.Stream)
	if removed == 0 {
		return "", true, false
	}
	f1, err1 := fit.Decode(bytes.NewReader(c.Stream.Bytes()))
	f2, err2 := fit.Decode(bytes.NewReader(stripped.Bytes()))
	if err1 != nil || err2 != nil {
		return fmt.Sprintf("decode errors: with unknown items %v, without %v\nstream: %s\nstripped: %s", err1, err2, c.Text, stripped.String()), false, true
	}
	o := prof.DigestOpts{NoHeader: true, NoUnknown: true, Skip: skipAcc}
	d1, d2 := prof.Digest(f1, o), prof.Digest(f2, o)
	if d1 != d2 {
		return fmt.Sprintf("removing unknown messages/fields/developer fields changed the decoded messages\nwith:\n%s\nwithout:\n%s\nstream: %s", d1, d2, c.Text), false, true
	}
	return "", true, true
}

// hugeRecords: single data records of up to 130050 bytes (255 fields and 255
// developer fields of 255 bytes each is what a definition can describe), as
// unknown messages and as a known message made of unlisted fields, between
// ordinary records whose values must come out unchanged.
func hugeRecords(rec *hx.Recorder) {
	n := int64(0)
	for _, g := range []uint16{0xFF30, 20} {
		for _, fd := range [][2]int{{255, 0}, {255, 2}, {255, 3}, {200, 57}, {255, 60}, {255, 255}, {1, 255}} {
			for _, be := range []bool{false, true} {
				def := fitmodel.Rec{IsDef: true, Local: 5, BigEndian: be, Global: g, HasDev: fd[1] > 0}
				size := 0
				for i := 0; i < fd[0]; i++ {
					num := byte(i)
					if g == 20 {
						// field numbers the record message does not list
						num = byte(130 + i%120)
					}
					if num == 253 {
						num = 252
					}
					def.Fields = append(def.Fields, fitmodel.FieldDef{Num: num, Size: 255, Base: 0x0D})
					size += 255
				}
				if g == 20 && len(def.Fields) > 100 {
					// keep field numbers unique: unlisted numbers are scarce,
					// so fewer, and let the developer fields make up the size
					def.Fields = def.Fields[:100]
					size = 100 * 255
				}
				for i := 0; i < fd[1]; i++ {
					def.Dev = append(def.Dev, fitmodel.DevFieldDef{Num: byte(i), Size: 255, Idx: 0})
					size += 255
				}
				raw := make([]byte, size)
				for i := range raw {
					raw[i] = byte(i*7 + i>>8)
				}
				s := &fitmodel.Stream{HeaderSize: 14, Proto: 0x20, Recs: []fitmodel.Rec{
					{IsDef: true, Global: 0, Fields: []fitmodel.FieldDef{{Num: 0, Size: 1, Base: 0}}}, {Raw: []byte{4}},
					{IsDef: true, Local: 1, BigEndian: be, Global: 20, Fields: []fitmodel.FieldDef{{Num: 253, Size: 4, Base: 0x86}, {Num: 3, Size: 1, Base: 2}}},
					{Local: 1, Raw: append(fitmodel.PutWireUint(0x3B9ACA00, 4, be), 101)},
					def,
					{Local: 5, Raw: raw},
					{Local: 1, Raw: append(fitmodel.PutWireUint(0x3B9ACA01, 4, be), 102)},
					{Local: 5, Raw: raw},
					{Local: 1, Raw: append(fitmodel.PutWireUint(0x3B9ACA02, 4, be), 103)},
				}}
				c := streamCase{FileType: 4, Stream: s, Text: fmt.Sprintf("(message %d with %d fields and %d developer fields of 255 bytes: records of %d bytes, bigEndian=%v)", g, len(def.Fields), fd[1], size, be)}
				n++
				if sig, msg, ok := checkStream(rec, c, map[string]int{}); !ok {
					rec.Fail("huge-records", sig, msg, c)
				}
			}
		}
	}
	rec.Eval("huge-records", n)
	rec.NonTrivialEnum(n)
}

// collidingDefinitions: a local type is redefined with a field list whose
// definition bytes have the same CRC-32 / CRC-32C / CRC-16 / Adler-32 / byte
// sum as the list it replaces (pairs found by a birthday search, see
// gen.CollidingDefs), and back. Each record still means what the definition
// in force says.
func collidingDefinitions(rec *hx.Recorder) {
	n := int64(0)
	for _, known := range []fitmodel.FieldDef{{Num: 3, Size: 1, Base: 0x02}, {Num: 4, Size: 1, Base: 0x02}} {
		for _, p := range gen.CollidingDefs(20, known, 3) {
			for _, be := range []bool{false, true} {
				st := gen.CollisionStream(p, be)
				c := mkCase(4, st)
				n++
				rec.Class("definitions colliding under "+p.Hash, 1)
				if sig, msg, ok := checkStream(rec, c, map[string]int{}); !ok {
					rec.Fail("colliding-definitions", sig, "a local type redefined with a field list whose definition bytes have the same "+p.Hash+" as the list it replaces: "+msg, c)
					return
				}
			}
		}
	}
	rec.Eval("colliding-definitions", n)
	rec.NonTrivialEnum(n)
}

// TestMain: with VERIF_FIRSTUSE_WORKER set this binary is a child of the
// "first-use" sub-check (see package firstuse).
func TestMain(m *testing.M) {
	firstuse.WorkerIfAsked()
	os.Exit(m.Run())
}

func firstUse(rec *hx.Recorder) {
	firstuse.Run(rec, hx.Pick(150, 1500), func(msg string) {
		rec.Fail("first-use", "", msg, streamCase{Text: "(first-use) 16 goroutines decode a small activity file as the first calls of a fresh process"})
	})
}

func fourGiB() gen.BigResult {
	g := gen.NewBigFile(0xFFFFFFFF, 0xFFFFFFFF, nil)
	return gen.DecodeBig(g, func(r io.Reader) ([]byte, error) {
		f, err := fit.Decode(r)
		var hr []byte
		if f != nil {
			if a, aerr := f.Activity(); aerr == nil && a != nil {
				for _, m := range a.Records {
					hr = append(hr, m.HeartRate)
				}
			}
		}
		return hr, err
	})
}

func reportFourGiB(rec *hx.Recorder, r gen.BigResult) {
	rec.Eval("four-gib", 1)
	rec.NonTrivialEnum(1)
	c := streamCase{Text: "(four-gib) header declares 4294967295 data bytes: file_id, record 100, 66047 unknown messages of 65026 bytes, short unknown messages, record 101, checksum"}
	switch {
	case r.Panic != nil:
		rec.Fail("four-gib", "", fmt.Sprintf("Decode of a well-formed file with a data section of 2^32-1 bytes panicked: %v", r.Panic), c)
	case r.Err != nil || !bytes.Equal(r.Records, []byte{100, 101}):
		rec.Fail("four-gib", "", fmt.Sprintf("a well-formed activity file with a data section of 2^32-1 bytes (two records around unknown messages): err=%v records=%v, want the records 100 and 101", r.Err, r.Records), c)
	case r.Delivered != r.Total:
		rec.Fail("four-gib", "", fmt.Sprintf("Decode read %d bytes of a well-formed %d-byte file", r.Delivered, r.Total), c)
	}
}

func TestC02(t *testing.T) {
	hx.Main(t, "C02", func(rec *hx.Recorder) {
		if rp, ok := hx.LoadReplay(); ok {
			if rp.Sub == "first-use" {
				rec.Eval("replay", 1)
				firstUse(rec)
				return
			}
			if rp.Sub == "four-gib" {
				rec.Eval("replay", 1)
				reportFourGiB(rec, fourGiB())
				return
			}
			var c streamCase
			if err := json.Unmarshal(rp.Case, &c); err != nil {
				t.Fatal(err)
			}
			c.Text = c.Stream.String()
			rec.Eval("replay", 1)
			if rp.Sub == "neighbours" {
				if msg, ok, _ := checkNeighbours(c); !ok {
					rec.Fail(rp.Sub, "", msg, c)
				}
				return
			}
			if sig, msg, ok := checkStream(rec, c, map[string]int{}); !ok {
				rec.Fail(rp.Sub, sig, msg, c)
			}
			return
		}

		// a well-formed file whose data section is 2^32-1 bytes long, decoded
		// while the rest of this process's work goes on (first shard, 64-bit
		// builds; the 4 GiB are streamed, not held)
		var big chan gen.BigResult
		if hx.FirstShard() && strconv.IntSize == 64 && os.Getenv("VERIF_VARIANT") == "" {
			big = make(chan gen.BigResult, 1)
			go func() { big <- fourGiB() }()
		}
		defer func() {
			if big != nil {
				reportFourGiB(rec, <-big)
			}
		}()

		if hx.FirstShard() {
			sweep(t, rec)
			hugeRecords(rec)
			collidingDefinitions(rec)
			if os.Getenv("VERIF_VARIANT") == "" {
				firstUse(rec)
			}
		}

		hx.RapidCheck(t, rec, "streams", func(rt *rapid.T, fail func(string, string, any)) {
			d := gen.D{T: rt}
			o := gen.DefaultStreamOpts()
			localTimes := d.Int(0, 9, "localtimes") == 0
			if localTimes {
				gen.LocalTimeOpts(d, &o)
				rec.Class("local-time stream", 1)
			}
			s, info := gen.GenStream(d, o)
			c := mkCase(info.FileType, s)
			if d.Int(0, 2, "chunked") == 0 {
				ch := gen.DrawChunking(d)
				c.Chunk = &ch
				rec.Class("read through chunking "+ch.Kind, 1)
			}
			if d.Int(0, 5, "chained") == 0 || (localTimes && d.Bool("ltchained")) {
				c.Chained = true
				rec.Class("decoded as second file of a chain", 1)
			}
			labels := map[string]int{}
			rec.Eval("streams", 1)
			sig, msg, ok := checkStream(rec, c, labels)
			for k, v := range info.Labels {
				labels[k] += v
			}
			for k := range labels {
				rec.Class(k, 1) // number of streams exhibiting the label
			}
			if nonTrivial(labels) {
				rec.NonTrivial(hx.FP(c.Text))
			}
			if rec.WantSample() && len(s.Recs) < 8 && nonTrivial(labels) {
				rec.Sample(c.Text)
			}
			if !ok {
				fail(sig, msg, c)
			}
		})

		// boundary: slide the decoder's 4096-byte buffer boundary across every
		// byte of a small stream (fillers in front), also with the stream as
		// the last thing in the data area
		boundaryCases, boundaryFailed := 0, false
		hx.RapidCheck(t, rec, "boundary", func(rt *rapid.T, fail func(string, string, any)) {
			// each case costs ~100 decodes of a 4 KiB file: a bounded number
			// of cases per run (the rapid check count is shared by all
			// sub-checks of this binary)
			if boundaryCases >= hx.Pick(40, 300) && !boundaryFailed {
				return
			}
			boundaryCases++
			d := gen.D{T: rt}
			o := gen.DefaultStreamOpts()
			o.ExtraFileIds = false
			o.MinRecs, o.MaxRecs = 1, 5
			o.MaxFields = 4
			s, info := gen.GenStream(d, o)
			tail := gen.TailLen(s)
			if tail > 900 {
				return
			}
			n := int64(0)
			for j := 0; j <= tail+1; j++ {
				s2, ok := gen.SlideTo(s, 4096-j)
				if !ok {
					continue
				}
				c := mkCase(info.FileType, s2)
				n++
				if sig, msg, ok := checkStream(rec, c, map[string]int{}); !ok {
					rec.Eval("boundary", n)
					c.Text = fmt.Sprintf("(tail slid so that the 4096-byte boundary falls %d bytes into it) %s", j, s.String())
					boundaryFailed = true // keep shrinking past the case budget
					fail(sig, msg, c)
				}
			}
			rec.Eval("boundary", n)
			rec.NonTrivial(hx.FP("b" + s.String()))
			for k := range info.Labels {
				rec.Class("boundary:"+k, 1)
			}
		})

		hx.RapidCheck(t, rec, "neighbours", func(rt *rapid.T, fail func(string, string, any)) {
			d := gen.D{T: rt}
			o := gen.DefaultStreamOpts()
			o.Compressed = false // removing a message must not shift compressed time bases of later unknown-free records: keep time state out of this relation
			s, info := gen.GenStream(d, o)
			c := mkCase(info.FileType, s)
			msg, ok, applied := checkNeighbours(c)
			rec.Eval("neighbours", 1)
			if applied {
				rec.Class("neighbours-applied", 1)
				rec.NonTrivial(hx.FP("n" + c.Text))
			}
			if !ok {
				fail("", msg, c)
			}
		})
	})
}
