//go:build verif

package c02

import (
	"fmt"
	"testing"

	"github.com/tormoder/fit"

	"verif/fitmodel"
	"verif/gen"
	"verif/hx"
	"verif/prof"
)

// boundary values per element width
func boundaryValues(bt fitmodel.BaseType, thorough bool) []uint64 {
	n := uint(bt.Size * 8)
	mask := uint64(1)<<n - 1
	if n == 64 {
		mask = ^uint64(0)
	}
	vals := []uint64{0, 1, bt.Invalid, (bt.Invalid - 1) & mask, (bt.Invalid + 1) & mask, uint64(1) << (n - 1), mask, mask - 1}
	pat := uint64(0x1234567890ABCDEF) & mask
	vals = append(vals, pat)
	if thorough {
		vals = append(vals, 0x80&mask, 0x7F&mask, 0xFF&mask, 0x0100&mask, 0xFEDCBA9876543210&mask, (uint64(1)<<(n-1))-1, (uint64(1)<<(n-1))+1)
	}
	return vals
}

// sweep decodes, for every profile field of every message observable in some
// file type, single-field streams with every compatible definition type, both
// byte orders and boundary values, and compares with the model.
func sweep(t *testing.T, rec *hx.Recorder) {
	tab := prof.Table()
	thorough := hx.Thorough()
	// message -> a file type hosting it
	host := map[uint16]fit.FileType{}
	for _, ft := range prof.FileTypes {
		for _, m := range prof.HostedMsgs(ft) {
			if _, ok := host[m]; !ok {
				host[m] = ft
			}
		}
	}
	cells := int64(0)
	failures := 0
	for _, m := range prof.MsgNums() {
		ft, ok := host[m]
		if !ok {
			continue
		}
		mi := tab.Msgs[m]
		for _, n := range prof.FieldNums(m) {
			fi := mi.Fields[n]
			if fi.SIndex < 0 || fi.SIndex >= mi.NFields {
				continue
			}
			pb := fitmodel.MustBase(fi.Base)
			var defs []fitmodel.FieldDef
			switch {
			case pb.String:
				for _, sz := range []int{1, 2, fi.Length - 1, fi.Length, fi.Length + 3, 255} {
					if sz >= 0 && sz <= 255 {
						defs = append(defs, fitmodel.FieldDef{Num: n, Size: byte(sz), Base: pb.Code})
					}
				}
			case fi.Array:
				ks := []int{1, fi.Length, fi.Length + 1, 255 / pb.Size}
				if fi.Length > 2 {
					ks = append(ks, fi.Length-1)
				}
				for _, k := range ks {
					if k >= 1 && k*pb.Size <= 255 {
						defs = append(defs, fitmodel.FieldDef{Num: n, Size: byte(k * pb.Size), Base: pb.Code})
					}
				}
			default:
				for _, code := range gen.CompatibleBases(pb, true) {
					defs = append(defs, fitmodel.FieldDef{Num: n, Size: byte(fitmodel.MustBase(code).Size), Base: code})
				}
			}
			for _, fd := range defs {
				bt := fitmodel.MustBase(fd.Base)
				for _, be := range []bool{false, true} {
					var payloads [][]byte
					if bt.String {
						payloads = stringPayloads(int(fd.Size))
					} else {
						k := int(fd.Size) / bt.Size
						for vi, v := range boundaryValues(bt, thorough) {
							var p []byte
							for e := 0; e < k; e++ {
								x := v
								if e > 0 {
									x = boundaryValues(bt, thorough)[(vi+e)%len(boundaryValues(bt, thorough))]
								}
								p = append(p, fitmodel.PutWireUint(x, bt.Size, be)...)
							}
							payloads = append(payloads, p)
						}
					}
					for _, p := range payloads {
						s := singleFieldStream(ft, m, fd, be, p)
						c := mkCase(ft, s)
						labels := map[string]int{}
						cells++
						sig, msg, ok := checkStream(rec, c, labels)
						for k := range labels {
							rec.Class("sweep:"+k, 1)
						}
						if !ok {
							failures++
							if failures <= 5 {
								rec.Fail("sweep", sig, fmt.Sprintf("%s.%s (field %d) def base %s size %d be=%v payload %x\n%s", mi.Name, fi.Name, n, bt.Name, fd.Size, be, p, msg), c)
							}
						}
					}
				}
			}
		}
	}
	rec.Eval("sweep", cells)
	rec.NonTrivialEnum(cells)
	rec.Exhaustive("every profile field of the 45 observable message types x every compatible definition type x both byte orders x boundary values (single-field streams)")
	if failures > 5 {
		rec.Note(fmt.Sprintf("sweep: %d failing cells in total (first 5 recorded)", failures))
	}
}

func stringPayloads(size int) [][]byte {
	mk := func(s string, fill byte) []byte {
		b := make([]byte, size)
		for i := range b {
			b[i] = fill
		}
		n := copy(b, s)
		if n < size {
			b[n] = 0
		}
		return b
	}
	out := [][]byte{make([]byte, size)}
	if size == 0 {
		return out
	}
	out = append(out, mk("a", 0), mk("héllo wörld", 0), mk("abc", 'X'))
	full := make([]byte, size)
	for i := range full {
		full[i] = 'a' + byte(i%26)
	}
	out = append(out, full)
	return out
}

func singleFieldStream(ft fit.FileType, m uint16, fd fitmodel.FieldDef, be bool, payload []byte) *fitmodel.Stream {
	s := &fitmodel.Stream{HeaderSize: 14, Proto: 0x20, ProfileVer: 2100}
	s.Recs = append(s.Recs,
		fitmodel.Rec{IsDef: true, Local: 0, Global: 0, Fields: []fitmodel.FieldDef{{Num: 0, Size: 1, Base: 0}}},
		fitmodel.Rec{Local: 0, Raw: []byte{byte(ft)}},
		fitmodel.Rec{IsDef: true, Local: 1, Global: m, BigEndian: be, Fields: []fitmodel.FieldDef{fd}},
		fitmodel.Rec{Local: 1, Raw: payload},
	)
	return s
}
