//go:build verif

package c11

import (
	"encoding/json"
	"fmt"
	"io"
	"log"
	"os"
	"runtime"
	"sort"
	"strings"
	"sync"
	"testing"
	"time"

	"github.com/tormoder/fit"
	"pgregory.net/rapid"

	"verif/fitmodel"
	"verif/gen"
	"verif/hx"
	"verif/oracle"
	"verif/prof"
)

// faultCase: a chain of stream specs, read through Chunk (which carries the
// cut or fault offset).
type faultCase struct {
	Streams   []*fitmodel.Stream `json:"streams"`
	FileTypes []int              `json:"file_types"`
	Chunk     gen.Chunking       `json:"chunking"`
	Text      []string           `json:"text,omitempty"`
	Note      string             `json:"note,omitempty"`
}

type layoutInfo struct {
	data   []byte
	starts []int // start offset of each file
	lays   []*fitmodel.Layout
}

func layout(c *faultCase) *layoutInfo {
	li := &layoutInfo{}
	for _, s := range c.Streams {
		l := s.Layout()
		li.starts = append(li.starts, len(li.data))
		li.lays = append(li.lays, l)
		li.data = append(li.data, l.Bytes...)
	}
	return li
}

// prefixSpec returns the stream restricted to the records that end at or
// before offset k (relative to the file start).
func prefixSpec(s *fitmodel.Stream, l *fitmodel.Layout, k int) (*fitmodel.Stream, int) {
	out := *s
	out.Recs = nil
	n := 0
	for i := range s.Recs {
		if l.RecEnd[i] <= k {
			out.Recs = append(out.Recs, s.Recs[i])
			n++
		} else {
			break
		}
	}
	return &out, n
}

// comparePartial checks that f holds exactly the messages of the records of
// file fi complete before relative offset k.
func comparePartial(rec *hx.Recorder, f *fit.File, s *fitmodel.Stream, l *fitmodel.Layout, ft int, k int) (string, bool) {
	ps, n := prefixSpec(s, l, k)
	if n < 2 {
		// the file_id message itself is not complete: nothing can be in the file
		if f == nil {
			return "", true
		}
		total := 0
		for _, cnt := range prof.CountMsgs(f) {
			total += cnt
		}
		if total > 1 { // File.FileId is a value member, always counted once
			return fmt.Sprintf("file returned with %d messages although not even file_id was complete", total-1), false
		}
		return "", true
	}
	if f == nil {
		return "no File returned although the file_id message and possibly more records were complete before the cut", false
	}
	ip := fitmodel.Interpret(ps, prof.Table())
	if ip.FailRec >= 0 {
		return "HARNESS: " + ip.FailWhy, false
	}
	exp := oracle.Expect(ip, fit.FileType(ft), true)
	diffs, _, _ := oracle.Compare(f, exp, oracle.CompareOpts{})
	var real []oracle.Diff
	for _, d := range diffs {
		if d.AccDst {
			if id := oracle.AccFinding(d.Field, hx.Open); id != "" {
				rec.Excluded(id, 1)
				continue
			}
		}
		real = append(real, d)
	}
	if len(real) > 0 {
		var sb strings.Builder
		for i, d := range real {
			if i == 6 {
				break
			}
			sb.WriteString(d.String() + "\n")
		}
		return fmt.Sprintf("partial File does not hold exactly the %d records complete before offset %d:\n%s", n, k, sb.String()), false
	}
	return "", true
}

const (
	eDecode = iota
	eChained
	eIntegrity
	eIntegrityHdr
	eHeader
	eHeaderFileID
)

var entryNames = []string{"Decode", "DecodeChained", "CheckIntegrity(false)", "CheckIntegrity(true)", "DecodeHeader", "DecodeHeaderAndFileID"}

// check runs all entry points on the case.
func check(rec *hx.Recorder, c *faultCase, regions map[string]int64) (string, bool) {
	li := layout(c)
	total := len(li.data)
	k := total // bytes available before the cut / fault
	isFault := c.Chunk.FaultAt >= 0
	if isFault {
		k = c.Chunk.FaultAt
	} else if c.Chunk.CutAt >= 0 {
		k = c.Chunk.CutAt
	}
	if k > total {
		k = total
	}
	first := li.lays[0]
	frame0 := len(first.Bytes)
	hs := int(first.Bytes[0])
	fileIDEnd := first.RecEnd[1]

	// classify the offset
	if regions != nil && k < total {
		fi := 0
		for i := range li.starts {
			if k >= li.starts[i] {
				fi = i
			}
		}
		rel := k - li.starts[fi]
		l := li.lays[fi]
		region := ""
		switch {
		case rel == 0 && fi > 0:
			region = "on a chained file boundary"
		case rel == 1 && fi > 0:
			region = "after the first byte of a later header"
		case rel < int(l.Bytes[0]):
			region = "inside a header"
		case rel >= l.DataEnd:
			region = "inside the file CRC"
		default:
			region = "inside a data record"
			for i := range l.RecStart {
				if rel >= l.RecStart[i] && rel < l.RecEnd[i] {
					if c.Streams[fi].Recs[i].IsDef {
						region = "inside a definition"
					}
					if rel == l.RecStart[i] {
						region = "on a record boundary"
					}
				}
			}
		}
		regions[region]++
	}

	// cuts that fall exactly on a structural boundary (end of a header, of a
	// record, of the data section, of a file) are also handed to every entry
	// point through every in-memory reader kind
	npass := 1
	if !isFault && k < total {
		for i := range li.starts {
			rel := k - li.starts[i]
			l := li.lays[i]
			if rel < 0 || rel > len(l.Bytes) {
				continue
			}
			if rel == int(l.Bytes[0]) || rel == l.DataEnd || rel == len(l.Bytes) {
				npass = 1 + len(memKinds)
			}
			for _, e := range l.RecEnd {
				if rel == e {
					npass = 1 + len(memKinds)
				}
			}
		}
	}
	var msg string
	p := oracle.Catch(func() {
		for pass := 0; pass < npass; pass++ {
			for e := 0; e < 6; e++ {
				need := 0
				switch e {
				case eDecode, eIntegrity:
					need = frame0
				case eChained:
					need = total
					if isFault {
						// the end of a chain is only known after a clean EOF
						need = total + 1
					}
				case eIntegrityHdr, eHeader:
					need = hs
				case eHeaderFileID:
					need = fileIDEnd
				}
				var r io.Reader = gen.NewReader(li.data, c.Chunk)
				// a quarter of the cut inputs are handed over as one of the
				// standard library's reader types holding exactly the cut bytes
				// (*bytes.Buffer, *strings.Reader, *io.SectionReader, ...): the
				// verdict must not depend on what the reader's type can do
				kindName := ""
				if pass > 0 || (!isFault && (k+int(e))%4 == 1) {
					kind := memKinds[(k/4+int(e))%len(memKinds)]
					if pass > 0 {
						kind = memKinds[pass-1]
					}
					if kr, _, done, oerr := kind.Open(li.data[:k]); oerr == nil {
						r, kindName = kr, " read through a "+kind.Name
						defer done()
					}
				}
				var err error
				var f *fit.File
				var fs []*fit.File
				// every third offset with all decode options on (a debug logger
				// whose output is discarded, unknown-field and unknown-message
				// tallies): the options must not change what a cut or a fault
				// leads to
				var opts []fit.DecodeOption
				if k%3 == 1 {
					opts = []fit.DecodeOption{fit.WithLogger(log.New(io.Discard, "", 0)), fit.WithUnknownFields(), fit.WithUnknownMessages()}
				}
				call := func() {
					switch e {
					case eDecode:
						f, err = fit.Decode(r, opts...)
					case eChained:
						fs, err = fit.DecodeChained(r, opts...)
					case eIntegrity:
						err = fit.CheckIntegrity(r, false)
					case eIntegrityHdr:
						err = fit.CheckIntegrity(r, true)
					case eHeader:
						_, err = fit.DecodeHeader(r)
					case eHeaderFileID:
						_, _, err = fit.DecodeHeaderAndFileID(r)
					}
				}
				what := "cut" + kindName
				if isFault {
					what = "read fault"
				}
				if isFault {
					// a reader that keeps failing must not keep the call
					// busy for ever: the call runs under a deadline. Once a
					// call has hung on one error value, no further calls
					// are made with that value (each would leave a spinning
					// goroutine behind).
					if _, hung := hungOn.Load(c.Chunk.FaultErr); hung {
						continue
					}
					done := make(chan any, 1)
					go func() { done <- oracle.Catch(call) }()
					tm := time.NewTimer(30 * time.Second)
					select {
					case pv := <-done:
						tm.Stop()
						if pv != nil {
							panic(pv)
						}
					case <-tm.C:
						hungOn.Store(c.Chunk.FaultErr, true)
						msg = fmt.Sprintf("%s has not returned 30 s after its reader failed at offset %d with %q (it keeps calling a reader that keeps failing)", entryNames[e], k, c.Chunk.FaultError())
						return
					}
				} else {
					call()
				}
				if k >= need {
					if err != nil {
						msg = fmt.Sprintf("%s failed (%v) although the %s at offset %d lies beyond the %d bytes it needs", entryNames[e], err, what, k, need)
						return
					}
					if e == eDecode {
						if m, ok := comparePartial(rec, f, c.Streams[0], first, c.FileTypes[0], frame0); !ok {
							msg = "Decode (complete input): " + m
							return
						}
					}
					if e == eChained && len(fs) != len(c.Streams) {
						msg = fmt.Sprintf("DecodeChained returned %d files for %d complete ones", len(fs), len(c.Streams))
						return
					}
					continue
				}
				// k < need
				if e == eChained {
					// complete files before k
					nComplete := 0
					for i := range li.starts {
						if li.starts[i]+len(li.lays[i].Bytes) <= k {
							nComplete++
						}
					}
					onBoundary := nComplete > 0 && nComplete < len(li.starts) && li.starts[nComplete] == k
					if onBoundary && !isFault {
						// the one exception: clean end of input on a file boundary
						if err != nil {
							msg = fmt.Sprintf("DecodeChained failed (%v) on a clean end of input exactly on the boundary after file %d", err, nComplete)
							return
						}
						if len(fs) != nComplete {
							msg = fmt.Sprintf("DecodeChained returned %d files, %d were complete before the end of input", len(fs), nComplete)
							return
						}
					} else {
						if err == nil {
							msg = fmt.Sprintf("DecodeChained returned nil error for a %s at offset %d of a %d-byte chain (%d complete files before it)", what, k, total, nComplete)
							return
						}
						if len(fs) < nComplete || len(fs) > nComplete+1 {
							msg = fmt.Sprintf("DecodeChained returned %d files alongside the error, %d were complete before offset %d", len(fs), nComplete, k)
							return
						}
						if len(fs) == nComplete+1 {
							rel := k - li.starts[nComplete]
							if m, ok := comparePartial(rec, fs[nComplete], c.Streams[nComplete], li.lays[nComplete], c.FileTypes[nComplete], rel); !ok {
								msg = fmt.Sprintf("DecodeChained, partial file %d: %s", nComplete, m)
								return
							}
						}
					}
					for i := 0; i < nComplete && i < len(fs); i++ {
						if m, ok := comparePartial(rec, fs[i], c.Streams[i], li.lays[i], c.FileTypes[i], len(li.lays[i].Bytes)); !ok {
							msg = fmt.Sprintf("DecodeChained, complete file %d: %s", i, m)
							return
						}
					}
					continue
				}
				if err == nil {
					msg = fmt.Sprintf("%s returned nil error for a %s at offset %d; it needs %d bytes", entryNames[e], what, k, need)
					return
				}
				if e == eDecode {
					if m, ok := comparePartial(rec, f, c.Streams[0], first, c.FileTypes[0], k); !ok {
						msg = "Decode: " + m
						return
					}
					// the same cut input as a regular file on disk (and, on other
					// offsets, as the read end of a pipe): what comes back with
					// the error does not depend on the kind of reader
					if !isFault && k%5 == 2 {
						kinds := gen.ReaderKinds(os.Getenv("VERIF_BUILD"))
						kind := kinds[len(kinds)-2+(k/5)%2] // regular *os.File / os.Pipe
						if kr, _, done, oerr := kind.Open(li.data[:k]); oerr == nil {
							fk, kerr := fit.Decode(kr)
							done()
							if kerr == nil {
								msg = fmt.Sprintf("Decode through a %s returned nil error for a cut at offset %d; it needs %d bytes", kind.Name, k, need)
								return
							}
							if m, ok := comparePartial(rec, fk, c.Streams[0], first, c.FileTypes[0], k); !ok {
								msg = fmt.Sprintf("Decode through a %s: %s", kind.Name, m)
								return
							}
						}
					}
				}
			}
		}
	})
	if p != nil {
		return fmt.Sprintf("panic: %v", p), false
	}
	return msg, msg == ""
}

// hungOn records the fault error values on which a call has not returned.
var hungOn sync.Map

// memKinds are the reader kinds that need no file descriptor.
var memKinds = func() []gen.ReaderKind {
	all := gen.ReaderKinds("")
	return all[:len(all)-2]
}()

func mkChunk(kind int, k int, mode int) gen.Chunking {
	var ch gen.Chunking
	switch kind % 3 {
	case 0:
		ch = gen.NoFault("whole", 0)
	case 1:
		ch = gen.NoFault("one", 0)
	default:
		ch = gen.NoFault("fixed", 3)
	}
	switch mode {
	case 0:
		ch.CutAt = k
	case 1:
		ch.FaultAt = k
	case 2:
		ch.FaultAt = k
		ch.FaultWithData = true
	case 3:
		// the reader's own error is io.ErrUnexpectedEOF: a failure, not a
		// clean end of input
		// (two offsets in three; on the others one of the other error
		// values real readers fail with: EINTR, EAGAIN, a timeout, ...)
		ch.FaultAt = k
		ch.FaultErr = "unexpected-eof"
		if k%3 == 2 {
			ch.FaultErr = gen.FaultErrKinds[(k/3)%len(gen.FaultErrKinds)]
		}
	case 4:
		// a transient fault: the error is returned once, a retry would
		// succeed. The call that got the error has still failed - whatever
		// the error value is (half of them are values that name themselves
		// temporary: EINTR, EAGAIN, a timeout).
		ch.FaultAt = k
		ch.Transient = true
		if k%2 == 1 {
			ch.FaultErr = gen.FaultErrKinds[(k/2)%len(gen.FaultErrKinds)]
		}
	}
	switch mode {
	case 5:
		// a transient fault reported together with the last bytes before
		// it ((n>0, err) once): the reader has still told its caller about a
		// failure
		ch.FaultAt = k
		ch.Transient = true
		ch.FaultWithData = true
		if k%2 == 1 {
			ch.FaultErr = gen.FaultErrKinds[(k/2)%len(gen.FaultErrKinds)]
		}
	}
	if kind%5 == 4 {
		ch.Empty = 3 // empty reads in between
	}
	return ch
}

// cutHuge: a valid file of nearly 4 GiB (data sizes 2^32-2 and 2^32-1, both
// header sizes) cut early: however large the announced data section, a short
// stream is reported by every entry point that needs more than it got.
func cutHuge(rec *hx.Recorder) {
	n := int64(0)
	for _, size := range []uint32{0xFFFFFFFE, 0xFFFFFFFF, 0xFFFFF001, 0x80000000, 0x7FFFFFFF} {
		for _, h14 := range []bool{false, true} {
			hs := uint64(12)
			if h14 {
				hs = 14
			}
			for _, cut := range []uint64{hs - 1, hs, hs + 1, hs + 6, 100, 4096, 70000, 1 << 20} {
				for e := 0; e < 6; e++ {
					g := gen.NewBigFile(uint64(size), size, nil, h14)
					g.CutAt = cut
					var err error
					p := oracle.Catch(func() {
						switch e {
						case 0:
							_, err = fit.Decode(g)
						case 1:
							_, err = fit.DecodeChained(g)
						case 2:
							err = fit.CheckIntegrity(g, false)
						case 3:
							err = fit.CheckIntegrity(g, true)
						case 4:
							_, err = fit.DecodeHeader(g)
						case 5:
							_, _, err = fit.DecodeHeaderAndFileID(g)
						}
					})
					n++
					name := []string{"Decode", "DecodeChained", "CheckIntegrity(false)", "CheckIntegrity(true)", "DecodeHeader", "DecodeHeaderAndFileID"}[e]
					mustFail := true
					switch e {
					case 3, 4:
						mustFail = cut < hs
					case 5:
						// the file_id definition (9 bytes) and record (2
						// bytes) end at hs+11
						mustFail = cut < hs+11
					}
					c := faultCase{Note: fmt.Sprintf("(cut-huge) a valid %d-byte file (header of %d bytes, data size %d) cut after %d bytes, %s", g.Total(), hs, size, cut, name)}
					if p != nil {
						rec.Fail("cut-huge", "", fmt.Sprintf("%s panicked on a valid file with data size %d cut after %d bytes: %v", name, size, cut, p), &c)
						return
					}
					if mustFail && err == nil {
						rec.Fail("cut-huge", "", fmt.Sprintf("%s returned nil error for a valid file with data size %d (header of %d bytes) cut after %d bytes; it read %d bytes", name, size, hs, cut, g.Delivered), &c)
						return
					}
					if e >= 3 && e <= 4 && cut >= hs && err != nil {
						rec.Fail("cut-huge", "", fmt.Sprintf("%s failed (%v) although the cut after %d bytes lies beyond the %d header bytes it needs", name, err, cut, hs), &c)
						return
					}
				}
			}
		}
	}
	rec.Eval("cut-huge", n)
	rec.NonTrivialEnum(n)
}

func TestC11(t *testing.T) {
	hx.Main(t, "C11", func(rec *hx.Recorder) {
		if rp, ok := hx.LoadReplay(); ok {
			var c faultCase
			if err := json.Unmarshal(rp.Case, &c); err != nil {
				t.Fatal(err)
			}
			rec.Eval("replay", 1)
			if rp.Sub == "cut-huge" {
				cutHuge(rec)
				return
			}
			if msg, ok := check(rec, &c, nil); !ok {
				rec.Fail(rp.Sub, "", msg, &c)
			}
			return
		}
		regions := map[string]int64{}

		if hx.FirstShard() {
			cutHuge(rec)
		}

		if hx.FirstShard() {
			// corpus files with a parseable structure: every offset near a
			// structural boundary plus a stride
			n := int64(0)
			corpusLimit := hx.Pick(3000, 24000)
			if os.Getenv("VERIF_VARIANT") != "" {
				corpusLimit /= 3 // the variant processes (other GOARCH, build tags) take the smaller files only
			}
			for _, cf := range gen.SmallCorpus(corpusLimit) {
				p, err := fitmodel.Parse(cf.Data)
				if err != nil {
					continue
				}
				ip := fitmodel.Interpret(p.Stream, prof.Table())
				if ip.FailRec >= 0 || len(p.Stream.Recs) < 2 || p.Stream.Recs[0].Global != 0 || len(p.Stream.Recs[1].Raw) == 0 {
					continue
				}
				// file type = file_id.type field 0
				ft := -1
				off := 0
				for _, fd := range p.Stream.Recs[0].Fields {
					if fd.Num == 0 {
						ft = int(p.Stream.Recs[1].Raw[off])
					}
					off += int(fd.Size)
				}
				if ft < 0 {
					continue
				}
				offs := map[int]bool{}
				for _, e := range p.Layout.RecEnd {
					for d := -3; d <= 3; d++ {
						offs[e+d] = true
					}
				}
				for k := 0; k < len(cf.Data); k += 97 {
					offs[k] = true
				}
				for k := 0; k < 16; k++ {
					offs[k] = true
					offs[len(cf.Data)-k] = true
				}
				if rec.WantSample() && len(cf.Data) < 300 {
					rec.Sample(map[string]any{"corpus_file": cf.Name, "bytes": len(cf.Data), "offsets": "record ends +-3, first/last 16 bytes, stride 97; x {cut, fault, fault-with-data}"})
				}
				var ks []int
				for k := range offs {
					if k >= 0 && k <= len(cf.Data) {
						ks = append(ks, k)
					}
				}
				sort.Ints(ks)
				var wg sync.WaitGroup
				var mu sync.Mutex
				workers := runtime.NumCPU()
				for w := 0; w < workers; w++ {
					wg.Add(1)
					go func(w int) {
						defer wg.Done()
						loc := map[string]int64{}
						for i := w; i < len(ks); i += workers {
							k := ks[i]
							for mode := 0; mode < 6; mode++ {
								c := &faultCase{Streams: []*fitmodel.Stream{p.Stream}, FileTypes: []int{ft}, Chunk: mkChunk(k, k, mode)}
								if msg, ok := check(rec, c, loc); !ok {
									rec.Fail("corpus", "", cf.Name+": "+msg, c)
								}
							}
						}
						mu.Lock()
						for k, v := range loc {
							regions[k] += v
						}
						mu.Unlock()
					}(w)
				}
				wg.Wait()
				n += int64(3 * len(ks))
			}
			rec.Eval("corpus", n)
			rec.NonTrivialEnum(n)

		}

		hx.RapidCheck(t, rec, "streams", func(rt *rapid.T, fail func(string, string, any)) {
			d := gen.D{T: rt}
			nf := 1
			if d.Chance(50, "chain") {
				nf = d.Int(2, 3, "nf")
			}
			c := &faultCase{}
			for i := 0; i < nf; i++ {
				o := gen.DefaultStreamOpts()
				o.ExtraFileIds = false
				o.MaxRecs = 10
				s, info := gen.GenStream(d, o)
				c.Streams = append(c.Streams, s)
				c.FileTypes = append(c.FileTypes, int(info.FileType))
				c.Text = append(c.Text, s.String())
			}
			total := len(layout(c).data)
			if rec.WantSample() && total < 400 {
				rec.Sample(map[string]any{"streams": c.Text, "offsets": "every cut and fault offset 0.." + fmt.Sprint(total)})
			}
			// every offset x {cut, fault, fault with data}
			cnt := int64(0)
			for k := 0; k <= total; k++ {
				for mode := 0; mode < 6; mode++ {
					c.Chunk = mkChunk(k+mode, k, mode)
					cnt++
					if msg, ok := check(rec, c, regions); !ok {
						rec.Eval("streams", cnt)
						fail("", msg, c)
					}
				}
			}
			rec.Eval("streams", cnt)
			rec.NonTrivialEnum(cnt)
			if nf > 1 {
				rec.Class("chained", 1)
			}
		})
		for k, v := range regions {
			rec.Class("offset "+k, v)
		}
	})
}
