//go:build verif

package c10

import (
	"bytes"
	"encoding/binary"
	"encoding/hex"
	"encoding/json"
	"fmt"
	"io"
	"os"
	"reflect"
	"strings"
	"testing"

	"github.com/tormoder/fit"
	"pgregory.net/rapid"

	"verif/fitmodel"
	"verif/gen"
	"verif/hx"
	"verif/oracle"
	"verif/prof"
)

type chainCase struct {
	Files    []string     `json:"files_hex"`
	Chunk    gen.Chunking `json:"chunking"`
	Sentinel int          `json:"sentinel_bytes"`
	Corrupt  int          `json:"corrupt_offset"` // >= 0: flip a byte of the first file's data area at this offset (failing decode variant)
	// BadType > 0: the first file's file_id.type is BadType-1 (any byte: a
	// type the library does not support, manufacturer-specific, invalid) with
	// the file checksum adjusted - an intact frame that Decode refuses
	BadType int `json:"file_type_plus_one,omitempty"`
}

// patchFileType sets the type field of the first file_id record of the frame
// img and recomputes the file checksum. It reports whether it found the field.
func patchFileType(img []byte, t byte) bool {
	p, err := fitmodel.Parse(img)
	if err != nil {
		return false
	}
	for ri, r := range p.Stream.Recs {
		if r.IsDef || r.Compressed {
			continue
		}
		def := p.Stream.Recs[p.DefOfData[ri]]
		if def.Global != 0 {
			return false
		}
		off := 0
		for _, fd := range def.Fields {
			if fd.Num == 0 && fd.Size == 1 {
				img[p.Layout.RecStart[ri]+1+off] = t
				crc := fitmodel.CRC(img[:len(img)-2])
				img[len(img)-2], img[len(img)-1] = byte(crc), byte(crc>>8)
				return true
			}
			off += int(fd.Size)
		}
		return false
	}
	return false
}

func frameLen(b []byte) int {
	return int(b[0]) + int(binary.LittleEndian.Uint32(b[4:8])) + 2
}

func skipK1(msg, field string) bool {
	return hx.Open("K1") && msg == "RecordMsg" && field == "Distance"
}

func digest(f *fit.File) string { return prof.Digest(f, prof.DigestOpts{Skip: skipK1}) }

func check(rec *hx.Recorder, c chainCase) (string, bool) {
	var files [][]byte
	for _, h := range c.Files {
		b, err := hex.DecodeString(h)
		if err != nil || len(b) < 14 {
			return "bad replay", false
		}
		files = append(files, b)
	}
	sentinel := bytes.Repeat([]byte{0xEE}, c.Sentinel)
	first := files[0]
	frame := frameLen(first)
	if frame != len(first) {
		return "HARNESS: generated file is not exactly one frame", false
	}
	var concat []byte
	for _, b := range files {
		concat = append(concat, b...)
	}
	withSentinel := append(append([]byte{}, concat...), sentinel...)

	var msg string
	p := oracle.Catch(func() {
		// reference results with a whole-buffer reader on the first file alone
		refFile, refErr := fit.Decode(bytes.NewReader(first))
		if refErr != nil {
			msg = fmt.Sprintf("Decode rejects a valid file (well-formed by construction, read in one piece): %v", refErr)
			return
		}
		in := withSentinel
		if c.Corrupt >= 0 {
			// failing variant: corrupt a byte inside the first file's data area
			in = append([]byte{}, withSentinel...)
			off := int(first[0]) + c.Corrupt%(frame-int(first[0])-2+1)
			if off >= frame {
				off = frame - 1
			}
			in[off] ^= 0x5A
		}
		failing := c.Corrupt >= 0
		if c.BadType > 0 {
			in = append([]byte{}, withSentinel...)
			if patchFileType(in[:frame], byte(c.BadType-1)) {
				failing = true
			}
		}

		// Decode
		r := gen.NewReader(in, c.Chunk)
		f, err := fit.Decode(r)
		if r.Delivered > frame {
			msg = fmt.Sprintf("Decode consumed %d bytes, the frame is %d (header %d + data %d + 2) [err=%v]", r.Delivered, frame, first[0], frame-int(first[0])-2, err)
			return
		}
		if !failing {
			if err != nil {
				msg = fmt.Sprintf("Decode failed under chunking %v: %v", c.Chunk, err)
				return
			}
			if r.Delivered != frame {
				msg = fmt.Sprintf("successful Decode consumed %d bytes, the frame is %d", r.Delivered, frame)
				return
			}
			if d1, d2 := digest(f), digest(refFile); d1 != d2 {
				msg = fmt.Sprintf("Decode result depends on chunking %v:\n%s\nvs whole:\n%s", c.Chunk, d1, d2)
				return
			}
		}
		// CheckIntegrity(false)
		r = gen.NewReader(in, c.Chunk)
		err = fit.CheckIntegrity(r, false)
		if r.Delivered > frame {
			msg = fmt.Sprintf("CheckIntegrity consumed %d bytes, the frame is %d [err=%v]", r.Delivered, frame, err)
			return
		}
		if c.Corrupt < 0 {
			if err != nil {
				msg = fmt.Sprintf("CheckIntegrity failed on a valid file under chunking %v: %v", c.Chunk, err)
				return
			}
			if r.Delivered != frame {
				msg = fmt.Sprintf("successful CheckIntegrity consumed %d bytes, the frame is %d", r.Delivered, frame)
				return
			}
		}
		// CheckIntegrity(true), DecodeHeader: exactly the header
		r = gen.NewReader(in, c.Chunk)
		err = fit.CheckIntegrity(r, true)
		if err != nil || r.Delivered != int(first[0]) {
			msg = fmt.Sprintf("CheckIntegrity(headerOnly): err=%v, consumed %d, header size %d", err, r.Delivered, first[0])
			return
		}
		r = gen.NewReader(in, c.Chunk)
		h, err := fit.DecodeHeader(r)
		if err != nil || r.Delivered != int(first[0]) {
			msg = fmt.Sprintf("DecodeHeader: err=%v, consumed %d, header size %d", err, r.Delivered, first[0])
			return
		}
		if h != refFile.Header {
			msg = fmt.Sprintf("DecodeHeader returned %v, Decode reports %v", h, refFile.Header)
			return
		}
		// DecodeHeaderAndFileID: inside the frame, same header and file_id
		r = gen.NewReader(in, c.Chunk)
		h2, id, err := fit.DecodeHeaderAndFileID(r)
		if r.Delivered > frame {
			msg = fmt.Sprintf("DecodeHeaderAndFileID consumed %d bytes, the frame is %d", r.Delivered, frame)
			return
		}
		if !failing {
			if err != nil {
				msg = fmt.Sprintf("DecodeHeaderAndFileID failed: %v", err)
				return
			}
			if h2 != refFile.Header || !reflect.DeepEqual(prof.MsgVals(reflect.ValueOf(id)), prof.MsgVals(reflect.ValueOf(refFile.FileId))) {
				msg = fmt.Sprintf("DecodeHeaderAndFileID returned (%v, %v), Decode reports (%v, %v)", h2, id, refFile.Header, refFile.FileId)
				return
			}
		}
		if failing {
			return
		}
		// the same through the concrete reader types programs use (seekable
		// readers that are not at offset 0, files, pipes, buffered readers):
		// what a reader can do besides Read must not matter. One kind per
		// case, chosen by the case's content.
		kinds := gen.ReaderKinds(os.Getenv("VERIF_BUILD"))
		kind := kinds[(len(first)+c.Sentinel+len(files))%len(kinds)]
		type call struct {
			name string
			want int
			run  func(r io.Reader) (string, error)
		}
		calls := []call{
			{"Decode", frame, func(r io.Reader) (string, error) { f, err := fit.Decode(r); return digest(f), err }},
			{"CheckIntegrity", frame, func(r io.Reader) (string, error) { return "", fit.CheckIntegrity(r, false) }},
			{"CheckIntegrity(headerOnly)", int(first[0]), func(r io.Reader) (string, error) { return "", fit.CheckIntegrity(r, true) }},
			{"DecodeHeader", int(first[0]), func(r io.Reader) (string, error) { h, err := fit.DecodeHeader(r); return fmt.Sprint(h), err }},
		}
		for _, cl := range calls {
			r, consumed, done, err := kind.Open(withSentinel)
			if err != nil {
				rec.Note("reader kind " + kind.Name + ": " + err.Error())
				break
			}
			got, err := cl.run(r)
			n := consumed()
			done()
			if err != nil {
				msg = fmt.Sprintf("%s fails on a valid file read through a %s: %v", cl.name, kind.Name, err)
				return
			}
			if n >= 0 && n != cl.want && !strings.Contains(kind.Name, "bufio") {
				msg = fmt.Sprintf("%s through a %s consumed %d bytes, expected %d", cl.name, kind.Name, n, cl.want)
				return
			}
			if cl.name == "Decode" && got != digest(refFile) {
				msg = fmt.Sprintf("Decode through a %s gives a different File than through a plain reader", kind.Name)
				return
			}
			if cl.name == "DecodeHeader" && got != fmt.Sprint(refFile.Header) {
				msg = fmt.Sprintf("DecodeHeader through a %s returned %s, Decode reports %v", kind.Name, got, refFile.Header)
				return
			}
		}
		// DecodeChained over the concatenation (no sentinel: trailing bytes
		// would be another, broken, file)
		r = gen.NewReader(concat, c.Chunk)
		fs, err := fit.DecodeChained(r)
		if err != nil {
			msg = fmt.Sprintf("DecodeChained failed on a concatenation of %d valid files: %v", len(files), err)
			return
		}
		if len(fs) != len(files) {
			msg = fmt.Sprintf("DecodeChained returned %d files for a concatenation of %d", len(fs), len(files))
			return
		}
		if r.Delivered != len(concat) {
			msg = fmt.Sprintf("DecodeChained consumed %d of %d bytes", r.Delivered, len(concat))
			return
		}
		for i, b := range files {
			single, err := fit.Decode(bytes.NewReader(b))
			if err != nil {
				msg = fmt.Sprintf("HARNESS: file %d does not decode alone: %v", i, err)
				return
			}
			if d1, d2 := digest(fs[i]), digest(single); d1 != d2 {
				msg = fmt.Sprintf("file %d of the chain differs from decoding it alone:\nchained:\n%s\nalone:\n%s", i, d1, d2)
				return
			}
		}
	})
	if p != nil {
		return fmt.Sprintf("panic: %v", p), false
	}
	return msg, msg == ""
}

func drawValidFile(d gen.D, corpus []gen.CorpusFile) []byte {
	switch k := d.Int(0, 9, "src"); {
	case k < 3:
		o := gen.DefaultFileOpts()
		fs := gen.GenFile(d, o)
		f, err := gen.BuildFile(fs)
		if err != nil {
			return nil
		}
		var buf bytes.Buffer
		ord := binary.ByteOrder(binary.LittleEndian)
		if fs.BigEndian {
			ord = binary.BigEndian
		}
		if fit.Encode(&buf, f, ord) != nil {
			return nil
		}
		return buf.Bytes()
	case k < 4 && len(corpus) > 0:
		return corpus[d.Int(0, len(corpus)-1, "cf")].Data
	case k == 5:
		// a data area of exactly a multiple of the 4096-byte read buffer,
		// or a byte or two around one
		o := gen.DefaultStreamOpts()
		o.ExtraFileIds = false
		o.MaxRecs = 8
		s, _ := gen.GenStream(d, o)
		size := 4096*d.Int(1, 3, "blocks") + []int{0, 0, 0, -1, 1, -2, 2}[d.Int(0, 6, "delta")]
		if s2, ok := gen.SlideTo(s, size-gen.TailLen(s)); ok {
			s = s2
		}
		return s.Bytes()
	case k < 5:
		// a file whose data area exceeds the 4096 byte read buffer
		o := gen.DefaultStreamOpts()
		o.ExtraFileIds = false
		o.MinRecs, o.MaxRecs = 150, 260
		o.MaxFields = 12
		s, _ := gen.GenStream(d, o)
		return s.Bytes()
	default:
		o := gen.DefaultStreamOpts()
		o.ExtraFileIds = false
		s, _ := gen.GenStream(d, o)
		return s.Bytes()
	}
}

// longChains: 65535, 65536 and 70000 small valid files in one stream (a year
// of a device's daily files concatenated): one File per input, each carrying
// its own number.
func longChains(rec *hx.Recorder) {
	for _, nfiles := range []int{65535, 65536, 70000} {
		var chain []byte
		for i := 0; i < nfiles; i++ {
			st := &fitmodel.Stream{HeaderSize: 12, Proto: 0x20, Recs: []fitmodel.Rec{
				{IsDef: true, Global: 0, Fields: []fitmodel.FieldDef{{Num: 0, Size: 1, Base: 0}, {Num: 3, Size: 4, Base: 0x8C}}},
				{Raw: []byte{4, byte(i), byte(i >> 8), byte(i >> 16), 0}},
			}}
			chain = append(chain, st.Bytes()...)
		}
		var fs []*fit.File
		var err error
		p := oracle.Catch(func() { fs, err = fit.DecodeChained(bytes.NewReader(chain)) })
		rec.Eval("long-chain", 1)
		rec.NonTrivialEnum(1)
		c := chainCase{Corrupt: -1, Sentinel: 0}
		msg := ""
		switch {
		case p != nil:
			msg = fmt.Sprintf("DecodeChained panicked on a chain of %d valid files: %v", nfiles, p)
		case err != nil || len(fs) != nfiles:
			msg = fmt.Sprintf("DecodeChained on a chain of %d valid files returned %d files and err=%v", nfiles, len(fs), err)
		default:
			for i, f := range fs {
				if f.FileId.SerialNumber != uint32(i) {
					msg = fmt.Sprintf("chain of %d valid files: File %d carries serial number %d", nfiles, i, f.FileId.SerialNumber)
					break
				}
			}
		}
		if msg != "" {
			rec.Fail("long-chain", "", msg, c)
			break
		}
	}
}

func TestC10(t *testing.T) {
	hx.Main(t, "C10", func(rec *hx.Recorder) {
		if rp, ok := hx.LoadReplay(); ok && rp.Sub == "long-chain" {
			rec.Eval("replay", 1)
			longChains(rec)
			return
		}
		if rp, ok := hx.LoadReplay(); ok {
			var c chainCase
			json.Unmarshal(rp.Case, &c)
			rec.Eval("replay", 1)
			if msg, ok := check(rec, c); !ok {
				rec.Fail(rp.Sub, "", msg, c)
			}
			return
		}
		// corpus files that are valid single files
		var corpus []gen.CorpusFile
		for _, cf := range gen.SmallCorpus(60000) {
			if _, err := fitmodel.Parse(cf.Data); err != nil {
				continue
			}
			if _, err := fit.Decode(bytes.NewReader(cf.Data)); err == nil {
				corpus = append(corpus, cf)
			}
		}
		if hx.FirstShard() {
			// deterministic: every usable corpus file x standard chunkings, alone and doubled
			n := int64(0)
			for _, cf := range corpus {
				for _, ch := range gen.StandardChunkings() {
					for _, k := range []int{1, 2} {
						c := chainCase{Chunk: ch, Sentinel: 7, Corrupt: -1}
						for i := 0; i < k; i++ {
							c.Files = append(c.Files, hex.EncodeToString(cf.Data))
						}
						n++
						if msg, ok := check(rec, c); !ok {
							rec.Fail("corpus", "", cf.Name+": "+msg, c)
						}
					}
				}
			}
			rec.Eval("corpus", n)
			rec.NonTrivialEnum(n)
			rec.Class("corpus-files-usable", int64(len(corpus)))

			// deterministic: data sizes at and around multiples of the
			// decoder's 4096-byte buffer and of the 32 KiB copy buffer
			base := &fitmodel.Stream{HeaderSize: 14, Proto: 0x20, Recs: []fitmodel.Rec{
				{IsDef: true, Global: 0, Fields: []fitmodel.FieldDef{{Num: 0, Size: 1, Base: 0}}}, {Raw: []byte{4}},
				{IsDef: true, Local: 1, Global: 20, Fields: []fitmodel.FieldDef{{Num: 253, Size: 4, Base: 0x86}, {Num: 3, Size: 1, Base: 2}}},
				{Local: 1, Raw: []byte{1, 2, 3, 4, 90}}, {Local: 1, Raw: []byte{2, 2, 3, 4, 91}},
			}}
			na, nafail := int64(0), 0
			for _, blk := range []int{4096, 8192, 12288, 32768, 65536} {
				for delta := -3; delta <= 3; delta++ {
					s, ok := gen.SlideTo(base, blk+delta-gen.TailLen(base))
					if !ok {
						continue
					}
					img := s.Bytes()
					if frameLen(img)-int(img[0])-2 != blk+delta {
						rec.Fail("aligned", "", "HARNESS: SlideTo did not produce the requested data size", nil)
						continue
					}
					for _, ch := range gen.StandardChunkings() {
						for _, k := range []int{1, 2} {
							c := chainCase{Chunk: ch, Sentinel: 5000, Corrupt: -1}
							for i := 0; i < k; i++ {
								c.Files = append(c.Files, hex.EncodeToString(img))
							}
							na++
							if nafail >= 3 {
								continue
							}
							if msg, ok := check(rec, c); !ok {
								nafail++
								rec.Fail("aligned", "", fmt.Sprintf("data size %d: %s", blk+delta, msg), c)
							}
						}
					}
				}
			}
			rec.Eval("aligned", na)
			rec.NonTrivialEnum(na)

			// deterministic: every file type byte (supported or not) in an
			// intact frame followed by more data, under every standard
			// chunking: whether or not Decode takes the file, nobody reads
			// past the frame
			nt := int64(0)
			img := base.Bytes()
			for t := 0; t < 256; t++ {
				for _, ch := range gen.StandardChunkings() {
					c := chainCase{Chunk: ch, Sentinel: 5000, Corrupt: -1, BadType: t + 1, Files: []string{hex.EncodeToString(img)}}
					nt++
					if msg, ok := check(rec, c); !ok {
						rec.Fail("file-types", "", fmt.Sprintf("file type byte %d: %s", t, msg), c)
						t = 256
						break
					}
				}
			}
			rec.Eval("file-types", nt)
			rec.NonTrivialEnum(nt)

			if os.Getenv("VERIF_VARIANT") == "" {
				longChains(rec)
			}

		}

		hx.RapidCheck(t, rec, "chains", func(rt *rapid.T, fail func(string, string, any)) {
			d := gen.D{T: rt}
			k := d.Int(1, 4, "nfiles")
			c := chainCase{Chunk: gen.DrawChunking(d), Sentinel: d.Int(0, 20, "sentinel"), Corrupt: -1}
			total, big := 0, false
			for i := 0; i < k; i++ {
				b := drawValidFile(d, corpus)
				if b == nil {
					continue
				}
				c.Files = append(c.Files, hex.EncodeToString(b))
				total += len(b)
				if len(b) > 4096+16 {
					big = true
				}
			}
			if len(c.Files) == 0 {
				return
			}
			if d.Chance(15, "corrupt") {
				c.Corrupt = d.Int(0, 100000, "coff")
				rec.Class("failing-variant", 1)
			} else if d.Int(0, 9, "badtype") == 0 {
				c.BadType = 1 + []int{0xF7, 0xFE, 0xFA, 0xF6, 0xFF, 0, 3, 12, 16, 36, 50, d.Int(0, 255, "anytype")}[d.Int(0, 11, "badtypesel")]
				rec.Class("refused-file-type-variant", 1)
			}
			rec.Eval("chains", 1)
			nontriv := big
			if len(c.Files) >= 2 && (c.Chunk.Kind == "fixed" || c.Chunk.Kind == "list" || c.Chunk.Kind == "one") {
				nontriv = true
				rec.Class("chain>=2 with non-aligned chunking", 1)
			}
			if big {
				rec.Class("file larger than the 4096-byte buffer", 1)
			}
			rec.Class("chunking:"+c.Chunk.Kind, 1)
			if nontriv {
				rec.NonTrivial(hx.FP(fmt.Sprint(c.Files, c.Chunk)))
			}
			if rec.WantSample() && total < 200 && len(c.Files) >= 2 {
				rec.Sample(c)
			}
			if msg, ok := check(rec, c); !ok {
				fail("", msg, c)
			}
		})
	})
}
