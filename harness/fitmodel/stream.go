package fitmodel

import (
	"encoding/binary"
	"encoding/hex"
	"fmt"
	"strings"
)

// FieldDef is one field definition triple.
type FieldDef struct {
	Num, Size, Base byte
}

// DevFieldDef is one developer field description triple.
type DevFieldDef struct {
	Num, Size, Idx byte
}

// Rec is one record of a FIT stream: a definition or a data record.
type Rec struct {
	IsDef bool
	Local byte

	// Definition members.
	BigEndian bool
	Global    uint16
	Fields    []FieldDef
	HasDev    bool // header bit 0x20 set and a dev field count byte present
	Dev       []DevFieldDef

	// Data members.
	Compressed bool   // compressed timestamp header (Local must be 0..3)
	TimeOffset byte   // 5 bit offset for compressed headers
	Raw        []byte // concatenated field bytes (normal + developer)
}

// Stream is a FIT file specification.
type Stream struct {
	HeaderSize byte // 12 or 14
	Proto      byte
	ProfileVer uint16
	HdrCRCZero bool // 14 byte header with stored CRC 0
	Recs       []Rec
}

// Layout holds the byte image of a stream and where things are.
type Layout struct {
	Bytes    []byte
	RecStart []int // offset of the first byte of record i
	RecEnd   []int // offset one past the last byte of record i
	DataEnd  int   // offset of the file CRC
}

// HeaderByte returns the record header byte of r.
func (r *Rec) HeaderByte() byte {
	if r.IsDef {
		h := byte(0x40) | (r.Local & 0x0F)
		if r.HasDev {
			h |= 0x20
		}
		return h
	}
	if r.Compressed {
		return 0x80 | ((r.Local & 0x03) << 5) | (r.TimeOffset & 0x1F)
	}
	return r.Local & 0x0F
}

// AppendTo appends the wire form of r.
func (r *Rec) AppendTo(b []byte) []byte {
	b = append(b, r.HeaderByte())
	if !r.IsDef {
		return append(b, r.Raw...)
	}
	b = append(b, 0)
	if r.BigEndian {
		b = append(b, 1)
		b = append(b, byte(r.Global>>8), byte(r.Global))
	} else {
		b = append(b, 0)
		b = append(b, byte(r.Global), byte(r.Global>>8))
	}
	b = append(b, byte(len(r.Fields)))
	for _, f := range r.Fields {
		b = append(b, f.Num, f.Size, f.Base)
	}
	if r.HasDev {
		b = append(b, byte(len(r.Dev)))
		for _, f := range r.Dev {
			b = append(b, f.Num, f.Size, f.Idx)
		}
	}
	return b
}

// DataLen returns the number of payload bytes a data record for definition r
// carries.
func (r *Rec) DataLen() int {
	n := 0
	for _, f := range r.Fields {
		n += int(f.Size)
	}
	for _, f := range r.Dev {
		n += int(f.Size)
	}
	return n
}

// Header returns the header bytes for a data area of n bytes.
func (s *Stream) Header(n int) []byte {
	hs := s.HeaderSize
	if hs != 14 {
		hs = 12
	}
	h := make([]byte, 12, 14)
	h[0] = hs
	h[1] = s.Proto
	binary.LittleEndian.PutUint16(h[2:], s.ProfileVer)
	binary.LittleEndian.PutUint32(h[4:], uint32(n))
	copy(h[8:], ".FIT")
	if hs == 14 {
		c := CRC(h[:12])
		if s.HdrCRCZero {
			c = 0
		}
		h = append(h, byte(c), byte(c>>8))
	}
	return h
}

// Layout lays the stream out.
func (s *Stream) Layout() *Layout {
	var body []byte
	l := &Layout{}
	hs := 12
	if s.HeaderSize == 14 {
		hs = 14
	}
	for i := range s.Recs {
		l.RecStart = append(l.RecStart, hs+len(body))
		body = s.Recs[i].AppendTo(body)
		l.RecEnd = append(l.RecEnd, hs+len(body))
	}
	out := append(s.Header(len(body)), body...)
	l.DataEnd = len(out)
	c := CRC(out)
	out = append(out, byte(c), byte(c>>8))
	l.Bytes = out
	return l
}

// Bytes is Layout().Bytes.
func (s *Stream) Bytes() []byte { return s.Layout().Bytes }

// String renders a compact human-readable form of the stream (for samples and
// replay files).
func (s *Stream) String() string {
	var sb strings.Builder
	fmt.Fprintf(&sb, "hdr%d", s.HeaderSize)
	for _, r := range s.Recs {
		sb.WriteByte(' ')
		if r.IsDef {
			o := "LE"
			if r.BigEndian {
				o = "BE"
			}
			fmt.Fprintf(&sb, "D%d(g%d,%s", r.Local, r.Global, o)
			for _, f := range r.Fields {
				fmt.Fprintf(&sb, ",%d:%d:%02x", f.Num, f.Size, f.Base)
			}
			if r.HasDev {
				fmt.Fprintf(&sb, ",dev%d", len(r.Dev))
			}
			sb.WriteByte(')')
		} else if r.Compressed {
			fmt.Fprintf(&sb, "C%d+%d[%s]", r.Local, r.TimeOffset, hex.EncodeToString(r.Raw))
		} else {
			fmt.Fprintf(&sb, "M%d[%s]", r.Local, hex.EncodeToString(r.Raw))
		}
	}
	return sb.String()
}

// FixFrame rewrites data size, header CRC (when present and non-zero wanted)
// and file CRC of a raw FIT byte image in place, assuming the image is one
// header followed by a data area followed by 2 CRC bytes. It returns false if
// the image is too short to be framed.
func FixFrame(b []byte, zeroHdrCRC bool) bool {
	if len(b) < 14 {
		return false
	}
	hs := int(b[0])
	if hs != 12 && hs != 14 {
		return false
	}
	if len(b) < hs+2 {
		return false
	}
	binary.LittleEndian.PutUint32(b[4:], uint32(len(b)-hs-2))
	if hs == 14 {
		c := CRC(b[:12])
		if zeroHdrCRC {
			c = 0
		}
		b[12], b[13] = byte(c), byte(c>>8)
	}
	c := CRC(b[:len(b)-2])
	b[len(b)-2], b[len(b)-1] = byte(c), byte(c>>8)
	return true
}
