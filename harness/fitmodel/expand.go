package fitmodel

// Component expansion model (property C18), written from the FIT profile's
// component columns as summarised in the property text: 16-bit speed and
// altitude fields expand into their 32-bit "enhanced" fields; the 3-byte
// compressed_speed_distance splits into a 12-bit speed and a 12-bit
// accumulated distance; cycles (8 bit) and compressed_accumulated_power (16
// bit) accumulate into total_cycles and accumulated_power; event data16
// expands into data, and data into score/opponent_score or the four gear
// bytes depending on the event kind. Global message numbers and event values
// are those of the FIT profile.

const (
	MsgSession    = 18
	MsgLap        = 19
	MsgRecord     = 20
	MsgEvent      = 21
	MsgSegmentLap = 142

	EventSportPoint      = 33
	EventFrontGearChange = 42
	EventRearGearChange  = 43
	EventRadarThreat     = 75
)

// Acc is one rollover-correcting accumulator of the given width.
type Acc struct {
	Bits uint
	Last uint32
	Sum  uint32
}

// Add accumulates a raw value.
func (a *Acc) Add(v uint32) uint32 {
	mask := uint32(1)<<a.Bits - 1
	a.Sum += (v - a.Last) & mask
	a.Last = v
	return a.Sum
}

// AccState is the per-file accumulator state.
type AccState struct {
	Distance, Cycles, Power Acc
}

// NewAccState returns fresh accumulators (12, 8 and 16 bits wide).
func NewAccState() *AccState {
	return &AccState{Distance: Acc{Bits: 12}, Cycles: Acc{Bits: 8}, Power: Acc{Bits: 16}}
}

// Index returns the struct index of the Go field called name, or -1.
func (mi *MsgInfo) Index(name string) int {
	for i, f := range mi.BySIdx {
		if f != nil && f.Name == name {
			return i
		}
	}
	return -1
}

type pair struct{ src, dst string }

var enhanced = map[uint16][]pair{
	MsgRecord: {{"Altitude", "EnhancedAltitude"}, {"Speed", "EnhancedSpeed"}},
	MsgLap: {{"AvgSpeed", "EnhancedAvgSpeed"}, {"MaxSpeed", "EnhancedMaxSpeed"}, {"AvgAltitude", "EnhancedAvgAltitude"},
		{"MaxAltitude", "EnhancedMaxAltitude"}, {"MinAltitude", "EnhancedMinAltitude"}},
	MsgSession: {{"AvgSpeed", "EnhancedAvgSpeed"}, {"MaxSpeed", "EnhancedMaxSpeed"}, {"AvgAltitude", "EnhancedAvgAltitude"},
		{"MaxAltitude", "EnhancedMaxAltitude"}, {"MinAltitude", "EnhancedMinAltitude"}},
	MsgSegmentLap: {{"AvgAltitude", "EnhancedAvgAltitude"}, {"MaxAltitude", "EnhancedMaxAltitude"}, {"MinAltitude", "EnhancedMinAltitude"}},
}

// ExpandsComponents reports whether messages with this number have component
// fields covered by the property.
func ExpandsComponents(g uint16) bool {
	switch g {
	case MsgSession, MsgLap, MsgRecord, MsgEvent, MsgSegmentLap:
		return true
	}
	return false
}

// DestinationFields lists the Go names of fields that expansion may write,
// per message; AccumulatedFields those fed by accumulators.
var DestinationFields = map[uint16][]string{
	MsgRecord:     {"EnhancedAltitude", "EnhancedSpeed", "Speed", "Distance", "TotalCycles", "AccumulatedPower"},
	MsgLap:        {"EnhancedAvgSpeed", "EnhancedMaxSpeed", "EnhancedAvgAltitude", "EnhancedMaxAltitude", "EnhancedMinAltitude"},
	MsgSession:    {"EnhancedAvgSpeed", "EnhancedMaxSpeed", "EnhancedAvgAltitude", "EnhancedMaxAltitude", "EnhancedMinAltitude"},
	MsgSegmentLap: {"EnhancedAvgAltitude", "EnhancedMaxAltitude", "EnhancedMinAltitude"},
	MsgEvent:      {"Data", "Score", "OpponentScore", "FrontGearNum", "FrontGear", "RearGearNum", "RearGear", "RadarThreatLevelMax", "RadarThreatCount"},
}

// Expansion describes what Expand did to one message.
type Expansion struct {
	Touched []int // struct indexes written by expansion
	AccDst  []int // struct indexes written from an accumulator
	Labels  []string
}

// Expand applies the component rules to m (whose Vals hold the wire values)
// using the per-file accumulators acc. Sources marked undecided make their
// destinations undecided.
func Expand(m *IMsg, acc *AccState) Expansion {
	var ex Expansion
	mi := m.Info
	get := func(name string) (int, Val, bool) {
		i := mi.Index(name)
		if i < 0 {
			return -1, Val{}, false
		}
		return i, m.Vals[i], true
	}
	set := func(name string, v Val, und bool) {
		i := mi.Index(name)
		if i < 0 {
			return
		}
		if und {
			m.Und[i] = true
		} else {
			m.Vals[i] = v
		}
		ex.Touched = append(ex.Touched, i)
	}
	for _, p := range enhanced[m.Global] {
		i, v, ok := get(p.src)
		if !ok {
			continue
		}
		if m.Und[i] {
			set(p.dst, Val{}, true)
			continue
		}
		if v.K == 'u' && v.U != 0xFFFF {
			set(p.dst, U(v.U&0xFFFF), false)
			ex.Labels = append(ex.Labels, "enhanced")
			if v.U > 0xFF {
				ex.Labels = append(ex.Labels, "enhanced-highbyte")
			}
		} else {
			ex.Labels = append(ex.Labels, "enhanced-src-invalid")
		}
	}
	switch m.Global {
	case MsgRecord:
		if i, v, ok := get("CompressedSpeedDistance"); ok {
			switch {
			case m.Und[i]:
				set("Speed", Val{}, true)
				set("Distance", Val{}, true)
			case v.K == 'a' && len(v.Elems) == 3:
				b0, b1, b2 := uint32(v.Elems[0].U), uint32(v.Elems[1].U), uint32(v.Elems[2].U)
				if !(b0 == 0xFF && b1 == 0xFF && b2 == 0xFF) {
					set("Speed", U(uint64(b0|(b1&0x0F)<<8)), false)
					// chained expansion speed -> enhanced_speed is
					// not asserted either way
					if wi := mi.Index("Speed"); wi >= 0 && !m.OnWire[wi] {
						set("EnhancedSpeed", Val{}, true)
					}
					raw := b1>>4 | b2<<4
					before := acc.Distance.Last
					set("Distance", U(uint64(acc.Distance.Add(raw))), false)
					ex.AccDst = append(ex.AccDst, mi.Index("Distance"))
					ex.Labels = append(ex.Labels, "csd")
					if raw < before {
						ex.Labels = append(ex.Labels, "csd-rollover")
					}
					if b2&0xF0 != 0 {
						ex.Labels = append(ex.Labels, "csd-distance-high-nibble")
					}
				} else {
					ex.Labels = append(ex.Labels, "csd-invalid")
				}
			case v.K == 'a':
				// a compressed_speed_distance that is not 3 bytes long:
				// the text does not speak about it
				set("Speed", Val{}, true)
				set("Distance", Val{}, true)
			}
		}
		if i, v, ok := get("Cycles"); ok {
			switch {
			case m.Und[i]:
				set("TotalCycles", Val{}, true)
			case v.K == 'u' && v.U != 0xFF:
				before := acc.Cycles.Last
				set("TotalCycles", U(uint64(acc.Cycles.Add(uint32(v.U)))), false)
				ex.AccDst = append(ex.AccDst, mi.Index("TotalCycles"))
				ex.Labels = append(ex.Labels, "cycles")
				if uint32(v.U) < before {
					ex.Labels = append(ex.Labels, "cycles-rollover")
				}
			}
		}
		if i, v, ok := get("CompressedAccumulatedPower"); ok {
			switch {
			case m.Und[i]:
				set("AccumulatedPower", Val{}, true)
			case v.K == 'u' && v.U != 0xFFFF:
				before := acc.Power.Last
				set("AccumulatedPower", U(uint64(acc.Power.Add(uint32(v.U)))), false)
				ex.AccDst = append(ex.AccDst, mi.Index("AccumulatedPower"))
				ex.Labels = append(ex.Labels, "power")
				if uint32(v.U) < before {
					ex.Labels = append(ex.Labels, "power-rollover")
				}
			}
		}
	case MsgEvent:
		if i, v, ok := get("Data16"); ok {
			if m.Und[i] {
				set("Data", Val{}, true)
			} else if v.K == 'u' && v.U != 0xFFFF {
				set("Data", U(v.U), false)
				ex.Labels = append(ex.Labels, "data16")
			}
		}
		di, dv, dok := get("Data")
		ei, evv, eok := get("Event")
		if dok && eok {
			und := m.Und[di] || m.Und[ei]
			if und {
				for _, n := range []string{"Score", "OpponentScore", "FrontGearNum", "FrontGear", "RearGearNum", "RearGear"} {
					set(n, Val{}, true)
				}
			} else if dv.K == 'u' && dv.U != 0xFFFFFFFF {
				switch evv.U {
				case EventSportPoint:
					set("Score", U(dv.U&0xFFFF), false)
					set("OpponentScore", U(dv.U>>16&0xFFFF), false)
					ex.Labels = append(ex.Labels, "score")
				case EventFrontGearChange, EventRearGearChange:
					set("RearGearNum", U(dv.U&0xFF), false)
					set("RearGear", U(dv.U>>8&0xFF), false)
					set("FrontGearNum", U(dv.U>>16&0xFF), false)
					set("FrontGear", U(dv.U>>24&0xFF), false)
					ex.Labels = append(ex.Labels, "gear")
				case EventRadarThreat:
					// newer profiles split data into radar threat
					// fields; the property does not list them
					set("RadarThreatLevelMax", Val{}, true)
					set("RadarThreatCount", Val{}, true)
				}
			}
		}
	}
	return ex
}
