// Package fitmodel is an independent model of the FIT wire format. It does
// not import the code under test. Base-type facts come from the FIT protocol
// document (table "FIT base types"), not from internal/types.
package fitmodel

// BaseType describes one FIT base type.
type BaseType struct {
	Code    byte // full base type byte, including the multi-byte flag 0x80
	Name    string
	Size    int
	Signed  bool // two's complement integer
	Integer bool // integer (incl. enum, byte, z-types)
	Float   bool
	String  bool
	Invalid uint64 // invalid bit pattern (low Size bytes)
}

// BaseTypes lists the 17 base types of FIT protocol 2.0.
var BaseTypes = []BaseType{
	{0x00, "enum", 1, false, true, false, false, 0xFF},
	{0x01, "sint8", 1, true, true, false, false, 0x7F},
	{0x02, "uint8", 1, false, true, false, false, 0xFF},
	{0x83, "sint16", 2, true, true, false, false, 0x7FFF},
	{0x84, "uint16", 2, false, true, false, false, 0xFFFF},
	{0x85, "sint32", 4, true, true, false, false, 0x7FFFFFFF},
	{0x86, "uint32", 4, false, true, false, false, 0xFFFFFFFF},
	{0x07, "string", 1, false, false, false, true, 0x00},
	{0x88, "float32", 4, false, false, true, false, 0xFFFFFFFF},
	{0x89, "float64", 8, false, false, true, false, 0xFFFFFFFFFFFFFFFF},
	{0x0A, "uint8z", 1, false, true, false, false, 0x00},
	{0x8B, "uint16z", 2, false, true, false, false, 0x0000},
	{0x8C, "uint32z", 4, false, true, false, false, 0x00000000},
	{0x0D, "byte", 1, false, true, false, false, 0xFF},
	{0x8E, "sint64", 8, true, true, false, false, 0x7FFFFFFFFFFFFFFF},
	{0x8F, "uint64", 8, false, true, false, false, 0xFFFFFFFFFFFFFFFF},
	{0x90, "uint64z", 8, false, true, false, false, 0x0000000000000000},
}

var baseByCode = func() map[byte]BaseType {
	m := map[byte]BaseType{}
	for _, b := range BaseTypes {
		m[b.Code] = b
	}
	return m
}()

// Base returns the base type with exactly this code byte.
func Base(code byte) (BaseType, bool) {
	b, ok := baseByCode[code]
	return b, ok
}

// MustBase is Base for codes known to be valid.
func MustBase(code byte) BaseType {
	b, ok := baseByCode[code]
	if !ok {
		panic("fitmodel: unknown base type")
	}
	return b
}

// Field kinds of the Go binding (a repository decision, mirrored here as plain
// numbers: 0 native, 1 UTC time, 2 local time, 3 latitude, 4 longitude).
const (
	KindNative    = 0
	KindTimeUTC   = 1
	KindTimeLocal = 2
	KindLat       = 3
	KindLng       = 4
)

// FitEpochUnix is 1989-12-31T00:00:00Z in Unix seconds.
const FitEpochUnix = 631065600

// SystemTimeMarker: timestamps below this are seconds since power-on.
const SystemTimeMarker = 0x10000000

// CRCStep advances a CRC-16/ARC register (poly 0xA001 reflected, init 0) by
// one byte, bit by bit.
func CRCStep(crc uint16, b byte) uint16 {
	crc ^= uint16(b)
	for i := 0; i < 8; i++ {
		if crc&1 != 0 {
			crc = (crc >> 1) ^ 0xA001
		} else {
			crc >>= 1
		}
	}
	return crc
}

// CRC computes CRC-16/ARC of data.
func CRC(data []byte) uint16 {
	var c uint16
	for _, b := range data {
		c = CRCStep(c, b)
	}
	return c
}
