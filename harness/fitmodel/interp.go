package fitmodel

import "fmt"

// IMsg is what one data record of a known message denotes.
type IMsg struct {
	Rec    int // record index in the stream
	Global uint16
	Info   *MsgInfo
	Vals   []Val  // by struct index; fields not on the wire hold InvalidVal
	Und    []bool // undecided by the property text (not compared)
	OnWire []bool // field carried by this record (by struct index)
	WireBE bool   // byte order of the definition used
}

// Interp is the result of interpreting a stream.
type Interp struct {
	Msgs []*IMsg // known messages in stream order (including file_id etc.)

	// FailRec >= 0: the record with this index cannot be interpreted (data
	// record on an undefined local type); everything before it is complete.
	FailRec int
	FailWhy string

	UnknownMsgs   map[uint16]int    // data records per unknown global message number
	UnknownFields map[[2]uint16]int // (known message, field number) -> records carrying it

	// Counters for labels.
	Labels map[string]int
	// Undecided counts situations the property text does not decide.
	Undecided int
}

type slot struct {
	def *Rec
}

// Interpret walks the records of s. Only records up to the first
// uninterpretable one are considered.
func Interpret(s *Stream, tab *Table) *Interp {
	out := &Interp{
		FailRec:       -1,
		UnknownMsgs:   map[uint16]int{},
		UnknownFields: map[[2]uint16]int{},
		Labels:        map[string]int{},
	}
	var slots [16]*Rec

	// Timestamp state.
	var (
		ref     uint32
		haveRef bool // an explicit or advanced reference exists and is non-zero
		lastOff uint32
		tainted bool // a reference-less local timestamp was seen; undecided until re-based
	)

	for ri := range s.Recs {
		r := &s.Recs[ri]
		if r.IsDef {
			slots[r.Local&0x0F] = r
			continue
		}
		local := r.Local & 0x0F
		if r.Compressed {
			local = r.Local & 0x03
		}
		def := slots[local]
		if def == nil {
			out.FailRec = ri
			out.FailWhy = fmt.Sprintf("data record %d uses undefined local type %d", ri, local)
			return out
		}
		if len(r.Raw) != def.DataLen() {
			out.FailRec = ri
			out.FailWhy = fmt.Sprintf("data record %d has %d payload bytes, definition says %d", ri, len(r.Raw), def.DataLen())
			return out
		}
		mi := tab.Msgs[def.Global]

		// Compressed timestamp headers advance the reference whatever the
		// message is.
		compressedTS, compressedUnd := uint32(0), false
		if r.Compressed {
			out.Labels["compressed"]++
			switch {
			case tainted || !haveRef:
				out.Undecided++
				out.Labels["compressed-undecided"]++
				compressedUnd = true
			default:
				off := uint32(r.TimeOffset & 0x1F)
				if off < lastOff {
					out.Labels["rollover"]++
				}
				delta := (off - lastOff) & 0x1F
				if uint64(ref)+uint64(delta) >= 0xFFFFFFFF {
					// advancing past the 32-bit range (year 2126):
					// not something the text speaks about
					out.Undecided++
					out.Labels["compressed-overflow"]++
					compressedUnd = true
					tainted = true
					break
				}
				ref += delta
				lastOff = off
				compressedTS = ref
				out.Labels["compressed-decided"]++
			}
		}
		if mi == nil {
			out.UnknownMsgs[def.Global]++
			continue
		}
		m := &IMsg{Rec: ri, Global: def.Global, Info: mi, WireBE: def.BigEndian}
		m.Vals = make([]Val, mi.NFields)
		m.Und = make([]bool, mi.NFields)
		m.OnWire = make([]bool, mi.NFields)
		for i := 0; i < mi.NFields; i++ {
			if fi := mi.BySIdx[i]; fi != nil {
				m.Vals[i] = InvalidVal(fi)
			} else {
				m.Und[i] = true
			}
		}
		if r.Compressed {
			if tsf := mi.Fields[253]; tsf != nil && tsf.SIndex >= 0 && tsf.SIndex < mi.NFields {
				if compressedUnd {
					m.Und[tsf.SIndex] = true
				} else {
					m.Vals[tsf.SIndex] = T(FitEpochUnix+int64(compressedTS), 0)
				}
			}
		}

		off := 0
		for _, fd := range def.Fields {
			raw := r.Raw[off : off+int(fd.Size)]
			off += int(fd.Size)
			fi := mi.Fields[fd.Num]
			if fi == nil {
				out.UnknownFields[[2]uint16{def.Global, uint16(fd.Num)}]++
				continue
			}
			m.OnWire[fi.SIndex] = true
			bt, ok := Base(fd.Base)
			if !ok {
				m.Und[fi.SIndex] = true
				continue
			}
			v, und := fieldValue(fi, fd, bt, raw, def.BigEndian, out)
			if und {
				m.Und[fi.SIndex] = true
				out.Undecided++
				if (fd.Num == 253 && fi.Kind == KindTimeUTC) || fi.Kind == KindTimeLocal {
					// the time reference after this record is not
					// decided by the text either
					tainted = true
				}
				continue
			}
			switch fi.Kind {
			case KindTimeUTC:
				if fi.Array {
					m.Und[fi.SIndex] = true
					continue
				}
				sec := uint32(v.U)
				if sec == 0xFFFFFFFF {
					// invalid: field keeps base time; an
					// invalid timestamp does not re-base.
					continue
				}
				m.Vals[fi.SIndex] = T(FitEpochUnix+int64(sec), 0)
				if fd.Num == 253 {
					ref = sec
					lastOff = sec & 0x1F
					haveRef = sec != 0
					tainted = false
					if sec == 0 {
						out.Labels["explicit-zero-ref"]++
					}
					out.Labels["rebase"]++
				}
			case KindTimeLocal:
				if fi.Array {
					m.Und[fi.SIndex] = true
					continue
				}
				sec := uint32(v.U)
				if sec == 0xFFFFFFFF {
					continue
				}
				switch {
				case tainted:
					m.Und[fi.SIndex] = true
					out.Undecided++
				case haveRef && ref >= SystemTimeMarker:
					// instant = reference, zone offset = local - reference
					m.Vals[fi.SIndex] = T(FitEpochUnix+int64(ref), int(int64(sec)-int64(ref)))
					out.Labels["local-with-ref"]++
				default:
					m.Vals[fi.SIndex] = T(FitEpochUnix+int64(sec), 0)
					out.Labels["local-no-ref"]++
					// The decoder adopts the local value as
					// reference here; the property is silent.
					tainted = true
				}
			case KindLat:
				if fi.Array {
					m.Und[fi.SIndex] = true
					continue
				}
				semi := int32(v.I)
				switch {
				case semi == 0x7FFFFFFF:
					m.Vals[fi.SIndex] = C(0x7FFFFFFF)
				case semi == 1<<30:
					// exactly +90 degrees: boundary not decided (see DESIGN C17)
					m.Und[fi.SIndex] = true
				case semi < -(1<<30) || semi > 1<<30:
					m.Vals[fi.SIndex] = C(0x7FFFFFFF)
				default:
					m.Vals[fi.SIndex] = C(semi)
				}
			case KindLng:
				if fi.Array {
					m.Und[fi.SIndex] = true
					continue
				}
				m.Vals[fi.SIndex] = C(int32(v.I))
			default:
				m.Vals[fi.SIndex] = v
			}
		}
		out.Msgs = append(out.Msgs, m)
	}
	return out
}

// fieldValue computes what the bytes of one field denote for profile entry fi
// under definition fd. For time and coordinate kinds the result is the raw
// 32-bit quantity as 'u' (time) or 'i' (coordinates). und reports that the
// property text does not decide the value (e.g. size is not a whole number of
// elements, or a narrower type carries its own invalid pattern).
func fieldValue(fi *FieldInfo, fd FieldDef, bt BaseType, raw []byte, be bool, out *Interp) (v Val, und bool) {
	pbt := MustBase(fi.Base)
	if be && bt.Size > 1 {
		out.Labels["be-multibyte"]++
	}

	// Strings.
	if pbt.String {
		if !bt.String {
			return Val{}, true
		}
		if fi.Array {
			return stringArray(raw, out)
		}
		n := 0
		for n < len(raw) && raw[n] != 0 {
			n++
		}
		switch {
		case n == len(raw) && n > 0:
			out.Labels["string-unterminated"]++
		case n > 0:
			out.Labels["string"]++
		default:
			out.Labels["string-empty"]++
		}
		return S(string(raw[:n])), false
	}
	if bt.String {
		return Val{}, true
	}

	if fi.Array && fi.Kind == KindNative {
		if bt.Code != pbt.Code && !(bt.Size == pbt.Size && bt.Signed == pbt.Signed && bt.Float == pbt.Float) {
			return Val{}, true
		}
		if len(raw)%bt.Size != 0 {
			return Val{}, true
		}
		var elems []Val
		for i := 0; i+bt.Size <= len(raw); i += bt.Size {
			elems = append(elems, ScalarFromWire(raw[i:i+bt.Size], bt, be))
		}
		out.Labels["array"]++
		if n := len(raw) / bt.Size; n > fi.Length {
			out.Labels["array-longer-than-profile"]++
		} else if n < fi.Length {
			out.Labels["array-shorter-than-profile"]++
		}
		return Arr(elems), false
	}

	// Scalars (native, time, coordinates): exactly one element of the
	// definition's type, not wider than the profile type, same signedness.
	if len(raw) != bt.Size {
		return Val{}, true
	}
	if bt.Size > pbt.Size || bt.Signed != pbt.Signed || bt.Float != pbt.Float {
		return Val{}, true
	}
	narrow := bt.Size < pbt.Size
	if narrow {
		out.Labels["narrow"]++
		if be && bt.Size > 1 {
			out.Labels["narrow-be"]++
		}
		// A narrower type carrying its own invalid pattern: the text does
		// not say whether this is "invalid" or the number.
		if WireUint(raw, be) == bt.Invalid {
			return Val{}, true
		}
	}
	sv := ScalarFromWire(raw, bt, be)
	if sv.K == 'i' && sv.I < 0 {
		out.Labels["negative"]++
		if narrow {
			out.Labels["narrow-negative"]++
		}
	}
	switch fi.Kind {
	case KindTimeUTC, KindTimeLocal:
		out.Labels["time"]++
		return U(sv.U & 0xFFFFFFFF), false
	case KindLat, KindLng:
		out.Labels["coord"]++
		return I(sv.I), false
	}
	if sv.K == 'f' {
		return sv, false
	}
	// Convert into the profile type's domain.
	if pbt.Signed {
		return I(sv.I), false
	}
	return U(sv.U), false
}

func stringArray(raw []byte, out *Interp) (Val, bool) {
	// NUL separated strings; trailing NUL padding. An empty element in the
	// middle is not something the text speaks about.
	var elems []Val
	i := 0
	for i < len(raw) {
		j := i
		for j < len(raw) && raw[j] != 0 {
			j++
		}
		if j == i {
			// only padding may follow
			for k := i; k < len(raw); k++ {
				if raw[k] != 0 {
					return Val{}, true
				}
			}
			break
		}
		elems = append(elems, S(string(raw[i:j])))
		i = j + 1
	}
	out.Labels["string-array"]++
	return Arr(elems), false
}
