package fitmodel

import (
	"encoding/binary"
	"fmt"
)

// ParseError describes why a byte image is not a well-formed FIT file.
type ParseError struct {
	Off int
	Msg string
}

func (e *ParseError) Error() string { return fmt.Sprintf("offset %d: %s", e.Off, e.Msg) }

// Parsed is the result of Parse.
type Parsed struct {
	Stream    *Stream
	Layout    *Layout
	HeaderCRC uint16 // stored header CRC (14 byte headers)
	FileCRC   uint16 // stored file CRC
	DataSize  uint32
	FrameLen  int   // header + data + 2
	DefOfData []int // for each record: index of the defining record (data records) or -1
}

// Parse checks b against the FIT file grammar: header, data size, CRCs, and a
// record area made of definitions and data records in which every data record
// refers to a previously defined local type and has exactly the defined
// length. Field sizes must be multiples of their base type size (strings
// exempt) and base types must be real ones. b must be exactly one file.
func Parse(b []byte) (*Parsed, error) {
	if len(b) < 12 {
		return nil, &ParseError{0, "shorter than a header"}
	}
	hs := int(b[0])
	if hs != 12 && hs != 14 {
		return nil, &ParseError{0, fmt.Sprintf("header size %d", hs)}
	}
	if len(b) < hs+2 {
		return nil, &ParseError{0, "shorter than header + crc"}
	}
	if string(b[8:12]) != ".FIT" {
		return nil, &ParseError{8, "data type is not .FIT"}
	}
	ds := binary.LittleEndian.Uint32(b[4:8])
	p := &Parsed{DataSize: ds, FrameLen: hs + int(ds) + 2}
	if int64(hs)+int64(ds)+2 != int64(len(b)) {
		return nil, &ParseError{4, fmt.Sprintf("data size %d but %d bytes between header and crc", ds, len(b)-hs-2)}
	}
	s := &Stream{HeaderSize: byte(hs), Proto: b[1], ProfileVer: binary.LittleEndian.Uint16(b[2:4])}
	if hs == 14 {
		p.HeaderCRC = binary.LittleEndian.Uint16(b[12:14])
		if p.HeaderCRC == 0 {
			s.HdrCRCZero = true
		} else if p.HeaderCRC != CRC(b[:12]) {
			return nil, &ParseError{12, fmt.Sprintf("header crc %#04x, computed %#04x", p.HeaderCRC, CRC(b[:12]))}
		}
	}
	p.FileCRC = binary.LittleEndian.Uint16(b[len(b)-2:])
	if c := CRC(b[:len(b)-2]); c != p.FileCRC {
		return nil, &ParseError{len(b) - 2, fmt.Sprintf("file crc %#04x, computed %#04x", p.FileCRC, c)}
	}
	end := len(b) - 2
	l := &Layout{Bytes: b, DataEnd: end}
	var slots [16]int
	for i := range slots {
		slots[i] = -1
	}
	off := hs
	need := func(n int, what string) error {
		if off+n > end {
			return &ParseError{off, "record area ends inside " + what}
		}
		return nil
	}
	for off < end {
		start := off
		h := b[off]
		off++
		var r Rec
		defIdx := -1
		switch {
		case h&0x80 != 0:
			r.Compressed = true
			r.Local = (h >> 5) & 3
			r.TimeOffset = h & 0x1F
		case h&0x40 != 0:
			r.IsDef = true
			r.Local = h & 0x0F
			r.HasDev = h&0x20 != 0
		default:
			if h&0x30 != 0 {
				return nil, &ParseError{start, fmt.Sprintf("reserved bits set in record header %#02x", h)}
			}
			r.Local = h & 0x0F
		}
		if r.IsDef {
			if err := need(5, "definition"); err != nil {
				return nil, err
			}
			arch := b[off+1]
			if arch > 1 {
				return nil, &ParseError{off + 1, fmt.Sprintf("architecture byte %d", arch)}
			}
			r.BigEndian = arch == 1
			if r.BigEndian {
				r.Global = binary.BigEndian.Uint16(b[off+2:])
			} else {
				r.Global = binary.LittleEndian.Uint16(b[off+2:])
			}
			nf := int(b[off+4])
			off += 5
			if err := need(3*nf, "field definitions"); err != nil {
				return nil, err
			}
			for i := 0; i < nf; i++ {
				fd := FieldDef{b[off], b[off+1], b[off+2]}
				bt, ok := Base(fd.Base)
				if !ok {
					return nil, &ParseError{off + 2, fmt.Sprintf("base type byte %#02x", fd.Base)}
				}
				if !bt.String && int(fd.Size)%bt.Size != 0 {
					return nil, &ParseError{off + 1, fmt.Sprintf("field %d size %d not a multiple of %s size", fd.Num, fd.Size, bt.Name)}
				}
				r.Fields = append(r.Fields, fd)
				off += 3
			}
			if r.HasDev {
				if err := need(1, "developer field count"); err != nil {
					return nil, err
				}
				nd := int(b[off])
				off++
				if err := need(3*nd, "developer field definitions"); err != nil {
					return nil, err
				}
				for i := 0; i < nd; i++ {
					r.Dev = append(r.Dev, DevFieldDef{b[off], b[off+1], b[off+2]})
					off += 3
				}
			}
			slots[r.Local] = len(s.Recs)
		} else {
			di := slots[r.Local]
			if di < 0 {
				return nil, &ParseError{start, fmt.Sprintf("data record for undefined local type %d", r.Local)}
			}
			defIdx = di
			n := s.Recs[di].DataLen()
			if err := need(n, "data record"); err != nil {
				return nil, err
			}
			r.Raw = append([]byte(nil), b[off:off+n]...)
			off += n
		}
		s.Recs = append(s.Recs, r)
		p.DefOfData = append(p.DefOfData, defIdx)
		l.RecStart = append(l.RecStart, start)
		l.RecEnd = append(l.RecEnd, off)
	}
	p.Stream = s
	p.Layout = l
	return p, nil
}
