package fitmodel

import (
	"fmt"
	"math"
	"strconv"
	"strings"
)

// Val is a neutral field value.
//
//	K='u' unsigned integer (U)
//	K='i' signed integer (I)
//	K='f' float (F, compared by bit pattern of the float64)
//	K='s' string (S)
//	K='t' time: U = FIT seconds since epoch carried as int64 in I (instant), Off = zone offset seconds
//	K='c' coordinate: I = semicircles as stored
//	K='a' array (Elems); a nil or empty array is K='n'
type Val struct {
	K     byte
	U     uint64
	I     int64
	F     float64
	S     string
	Off   int
	Elems []Val
}

func U(v uint64) Val  { return Val{K: 'u', U: v} }
func I(v int64) Val   { return Val{K: 'i', I: v} }
func F(v float64) Val { return Val{K: 'f', F: v} }
func S(v string) Val  { return Val{K: 's', S: v} }

// T is an instant given in Unix seconds, shown in a zone with the given offset.
func T(unix int64, off int) Val { return Val{K: 't', I: unix, Off: off} }
func C(semi int32) Val          { return Val{K: 'c', I: int64(semi)} }
func Nil() Val                  { return Val{K: 'n'} }
func Arr(e []Val) Val {
	if len(e) == 0 {
		return Nil()
	}
	return Val{K: 'a', Elems: e}
}

// String is the canonical form; two values are equal iff their canonical
// forms are equal.
func (v Val) String() string {
	switch v.K {
	case 'u':
		return "u" + strconv.FormatUint(v.U, 10)
	case 'i':
		return "i" + strconv.FormatInt(v.I, 10)
	case 'f':
		return "f" + strconv.FormatUint(math.Float64bits(v.F), 16)
	case 's':
		return "s" + strconv.Quote(v.S)
	case 't':
		if v.S != "" && v.S != "local" && !strings.HasPrefix(v.S, "tz:") {
			return fmt.Sprintf("t%dz%dn%s", v.I, v.Off, v.S)
		}
		return fmt.Sprintf("t%dz%d", v.I, v.Off)
	case 'c':
		return "c" + strconv.FormatInt(v.I, 10)
	case 'n':
		return "nil"
	case 'a':
		var sb strings.Builder
		sb.WriteByte('[')
		for i, e := range v.Elems {
			if i > 0 {
				sb.WriteByte(',')
			}
			sb.WriteString(e.String())
		}
		sb.WriteByte(']')
		return sb.String()
	}
	return "?"
}

// Equal compares canonical forms.
func (v Val) Equal(w Val) bool { return v.String() == w.String() }

// FieldInfo is the part of a profile table entry the model needs.
type FieldInfo struct {
	Num    byte
	SIndex int
	Kind   int
	Base   byte
	Array  bool
	Length int
	Name   string // Go struct field name
}

// MsgInfo describes one known message.
type MsgInfo struct {
	Num     uint16
	Name    string // Go type name, e.g. "RecordMsg"
	NFields int    // number of struct fields
	Fields  map[byte]*FieldInfo
	BySIdx  []*FieldInfo // struct index -> entry (nil if none)
}

// Table is the profile as the model sees it.
type Table struct {
	Msgs map[uint16]*MsgInfo
}

// Field looks a field up.
func (t *Table) Field(m uint16, n byte) *FieldInfo {
	mi := t.Msgs[m]
	if mi == nil {
		return nil
	}
	return mi.Fields[n]
}

// InvalidVal is the invalid value of a field according to the FIT base type
// table and the Go binding's kinds.
func InvalidVal(fi *FieldInfo) Val {
	switch fi.Kind {
	case KindTimeUTC, KindTimeLocal:
		if fi.Array {
			return Nil()
		}
		return T(FitEpochUnix, 0)
	case KindLat, KindLng:
		if fi.Array {
			return Nil()
		}
		return C(0x7FFFFFFF)
	}
	if fi.Array {
		return Nil()
	}
	return ScalarInvalid(MustBase(fi.Base))
}

// ScalarInvalid returns the invalid scalar of a base type.
func ScalarInvalid(bt BaseType) Val {
	switch {
	case bt.String:
		return S("")
	case bt.Float:
		if bt.Size == 4 {
			return F(float64(math.Float32frombits(0xFFFFFFFF)))
		}
		return F(math.Float64frombits(0xFFFFFFFFFFFFFFFF))
	case bt.Signed:
		return I(int64(bt.Invalid))
	default:
		return U(bt.Invalid)
	}
}

// WireUint reads an unsigned integer of len(b) bytes in the given order.
func WireUint(b []byte, bigEndian bool) uint64 {
	var v uint64
	if bigEndian {
		for _, x := range b {
			v = v<<8 | uint64(x)
		}
	} else {
		for i := len(b) - 1; i >= 0; i-- {
			v = v<<8 | uint64(b[i])
		}
	}
	return v
}

// PutWireUint writes the low n bytes of v in the given order.
func PutWireUint(v uint64, n int, bigEndian bool) []byte {
	b := make([]byte, n)
	for i := 0; i < n; i++ {
		if bigEndian {
			b[n-1-i] = byte(v >> (8 * i))
		} else {
			b[i] = byte(v >> (8 * i))
		}
	}
	return b
}

// SignExtend interprets the low n bytes of v as two's complement.
func SignExtend(v uint64, n int) int64 {
	shift := uint(64 - 8*n)
	return int64(v<<shift) >> shift
}

// ScalarFromWire gives the value an element of base type bt denotes.
func ScalarFromWire(b []byte, bt BaseType, bigEndian bool) Val {
	u := WireUint(b, bigEndian)
	switch {
	case bt.Float && bt.Size == 4:
		return F(float64(math.Float32frombits(uint32(u))))
	case bt.Float:
		return F(math.Float64frombits(u))
	case bt.Signed:
		return I(SignExtend(u, bt.Size))
	default:
		return U(u)
	}
}
