//go:build verif

package c06

import (
	"bytes"
	"encoding/binary"
	"encoding/json"
	"fmt"
	"io"
	"os"
	"strings"
	"testing"

	"github.com/tormoder/fit"
	"pgregory.net/rapid"

	"verif/fitmodel"
	"verif/gen"
	"verif/hx"
	"verif/oracle"
	"verif/prof"
)

func order(be bool) binary.ByteOrder {
	if be {
		return binary.BigEndian
	}
	return binary.LittleEndian
}

// refusingWriter accepts a few bytes and then fails.
type refusingWriter struct{ left int }

func (w *refusingWriter) Write(p []byte) (int, error) {
	if len(p) > w.left {
		n := w.left
		w.left = 0
		return n, fmt.Errorf("verif: writer refuses further data")
	}
	w.left -= len(p)
	return len(p), nil
}

// roundTrip builds the File, encodes, decodes and compares.
func roundTrip(rec *hx.Recorder, fs *gen.FileSpec, labels map[string]int) (string, bool) {
	in, err := gen.BuildFile(fs)
	if err != nil {
		return "HARNESS: cannot build file: " + err.Error(), false
	}
	if fs.ZonedUTC {
		// date_time fields held as times shown in a zone: the instant is
		// what the field means
		if prof.TweakTimes(in, false, true) > 0 {
			labels["date_time fields shown in a zone"]++
		}
	}
	aliased := 0
	if fs.Aliased {
		// the File's arrays are overlapping views of one buffer
		if aliased = prof.AliasArrays(in); aliased > 0 {
			labels["arrays sharing a buffer"]++
		}
	}
	if fs.Prelude != "" {
		if f0, err := gen.BuildFile(fs); err == nil {
			oracle.Catch(func() {
				switch fs.Prelude {
				case "badstring":
					f0.FileId.ProductName = "ab\xff\xfe"
					var sink bytes.Buffer
					if fit.Encode(&sink, f0, order(fs.BigEndian)) != nil {
						labels["after a failing Encode"]++
					}
				case "failwriter":
					if fit.Encode(&refusingWriter{left: 9}, f0, order(fs.BigEndian)) != nil {
						labels["after a failing Encode"]++
					}
				}
			})
		}
	}
	var buf bytes.Buffer
	var eerr error
	if p := oracle.Catch(func() { eerr = fit.Encode(&buf, in, order(fs.BigEndian)) }); p != nil {
		return fmt.Sprintf("Encode panicked: %v", p), false
	}
	if eerr != nil {
		return fmt.Sprintf("Encode failed on an in-domain File: %v", eerr), false
	}
	if aliased == 0 {
		if msg := prof.SpareIntact(in); msg != "" {
			return "Encode wrote into memory of the caller that is not part of the File: " + msg, false
		}
	}
	// the bytes do not depend on what kind of writer receives them
	if msg := gen.CheckWriterKind(os.Getenv("VERIF_BUILD"), buf.Len()+len(fs.Slots), buf.Bytes(), func(w io.Writer) error {
		again, err := gen.BuildFile(fs)
		if err != nil {
			return err
		}
		prof.TweakTimes(again, false, fs.ZonedUTC)
		return fit.Encode(w, again, order(fs.BigEndian))
	}); msg != "" {
		return "Encode: " + msg, false
	}
	var out *fit.File
	var derr error
	if p := oracle.Catch(func() { out, derr = fit.Decode(bytes.NewReader(buf.Bytes())) }); p != nil {
		return fmt.Sprintf("Decode of Encode's output panicked: %v\nbytes: %s", p, hx.Hex(buf.Bytes())), false
	}
	if derr != nil {
		return fmt.Sprintf("Decode rejected Encode's output: %v\nbytes: %s", derr, hx.Hex(buf.Bytes())), false
	}
	if out.Type() != in.Type() {
		return fmt.Sprintf("file type changed: %d -> %d", in.Type(), out.Type()), false
	}
	// Rebuild the input for the expectation: Encode must not have changed
	// the message values of the File it was given either.
	in2, _ := gen.BuildFile(fs)
	exp := oracle.FileExpect(in2)
	diffs, _ := oracle.CompareNorm(out, exp)
	var real []oracle.Diff
	for _, d := range diffs {
		if d.AccDst {
			if id := oracle.AccFinding(d.Field, hx.Open); id != "" {
				rec.Excluded(id, 1)
				rec.Known(id, fmt.Sprintf("%s[%d].%s: put in %s, got back %s", d.Slot, d.Index, d.Field, d.Want, d.Got))
				continue
			}
		}
		real = append(real, d)
	}
	for k, v := range exp.Labels {
		labels[k] += v
	}
	if len(real) > 0 {
		var sb strings.Builder
		for i, d := range real {
			if i == 8 {
				fmt.Fprintf(&sb, "… and %d more\n", len(real)-8)
				break
			}
			fmt.Fprintf(&sb, "%s[%d].%s: put in %s, got back %s\n", d.Slot, d.Index, d.Field, d.Want, d.Got)
		}
		return sb.String() + "bytes: " + hx.Hex(buf.Bytes()), false
	}
	return "", true
}

func specLabels(fs *gen.FileSpec, labels map[string]int) {
	tab := prof.Table()
	visit := func(ms gen.MsgSpec) {
		mi := tab.Msgs[ms.Global]
		for name, v := range ms.Fields {
			switch v.K {
			case 'a':
				labels["array"]++
				if i := mi.Index(name); i >= 0 && len(v.Elems) < mi.BySIdx[i].Length {
					labels["array-shorter-than-profile"]++
				}
			case 's':
				labels["string"]++
				for _, c := range []byte(v.S) {
					if c >= 0x80 {
						labels["string-multibyte"]++
						break
					}
				}
			case 't':
				if v.S == "local" {
					labels["local-time"]++
					if v.Off != 0 {
						labels["local-time-zoned"]++
					}
				} else {
					labels["utc-time"]++
				}
			case 'i':
				if v.I < 0 {
					labels["negative"]++
				}
			case 'c':
				labels["coordinate"]++
			}
		}
	}
	visit(fs.FileId)
	for _, s := range fs.Slots {
		for _, m := range s.Msgs {
			visit(m)
		}
		if len(s.Msgs) >= 2 {
			labels["slot-with->=2"]++
		}
	}
	if fs.BigEndian {
		labels["big-endian"]++
	}
}

func nonTrivial(l map[string]int) bool {
	return l["array"] > 0 || l["string"] > 0 || l["local-time"] > 0 || l["negative"] > 0
}

// sweep: every settable field of every observable message x boundary values x
// both byte orders, one message per file.
func sweep(rec *hx.Recorder) {
	tab := prof.Table()
	cells := int64(0)
	fails := 0
	for _, ft := range prof.FileTypes {
		slots := append(prof.FileSlots(), prof.Slots(ft)...)
		for _, s := range slots {
			if s.InFile && ft != prof.FileTypes[0] {
				continue // File-level slots once
			}
			mi := tab.Msgs[s.Msg]
			if mi == nil {
				continue
			}
			for _, n := range prof.FieldNums(s.Msg) {
				fi := mi.Fields[n]
				if fi.Name == "" || (s.Msg == 0 && n == 0) {
					continue
				}
				for _, v := range boundaryVals(fi) {
					for _, be := range []bool{false, true} {
						fs := &gen.FileSpec{Type: int(ft), HdrCRC: be, Proto: 0x20, BigEndian: be, FileId: gen.MsgSpec{Global: 0, Fields: map[string]fitmodel.Val{}}}
						ms := gen.MsgSpec{Global: s.Msg, Fields: map[string]fitmodel.Val{fi.Name: v}}
						if s.Name == "FileId" {
							fs.FileId = ms
						} else {
							fs.Slots = []gen.SlotSpec{{Name: s.Name, InFile: s.InFile, Msgs: []gen.MsgSpec{ms}}}
						}
						cells++
						if msg, ok := roundTrip(rec, fs, map[string]int{}); !ok {
							fails++
							if fails <= 5 {
								rec.Fail("sweep", "", fmt.Sprintf("%s.%s = %s (bigEndian=%v, file type %d)\n%s", mi.Name, fi.Name, v, be, ft, msg), fs)
							}
						}
					}
				}
			}
		}
	}
	rec.Eval("sweep", cells)
	rec.NonTrivialEnum(cells)
	rec.Exhaustive("every field of every message slot of every file type x in-domain boundary values x both byte orders (one field per file)")
	if fails > 5 {
		rec.Note(fmt.Sprintf("sweep: %d failing cells (first 5 recorded)", fails))
	}
}

func boundaryVals(fi *fitmodel.FieldInfo) []fitmodel.Val {
	bt := fitmodel.MustBase(fi.Base)
	var out []fitmodel.Val
	switch fi.Kind {
	case fitmodel.KindTimeUTC:
		if fi.Array {
			return nil
		}
		for _, s := range []int64{1, 31, 32, 0x0FFFFFFF, 0x10000000, 0x3B9ACA00, 0xFFFFFFFE} {
			out = append(out, fitmodel.T(fitmodel.FitEpochUnix+s, 0))
		}
		return out
	case fitmodel.KindTimeLocal:
		if fi.Array {
			return nil
		}
		for _, w := range []int64{1, 0x10000000, 0x3B9ACA00, 0xFFFFFFFE} {
			for _, off := range []int{0, 3600, -7200, 50400} {
				if w-int64(off) < 0 || w-int64(off) > 0xFFFFFFFE {
					continue
				}
				v := fitmodel.T(fitmodel.FitEpochUnix+w-int64(off), off)
				v.S = "local"
				out = append(out, v)
			}
		}
		return out
	case fitmodel.KindLat:
		if fi.Array {
			return nil
		}
		for _, s := range []int32{-(1 << 30), -1, 0, 1, 1<<30 - 1, 0x12345678 >> 1} {
			out = append(out, fitmodel.C(s))
		}
		return out
	case fitmodel.KindLng:
		if fi.Array {
			return nil
		}
		for _, s := range []int32{-(1 << 31), -1, 0, 1, 0x7FFFFFFE, 1 << 30} {
			out = append(out, fitmodel.C(s))
		}
		return out
	}
	if bt.String {
		if fi.Array || fi.Length < 2 {
			return nil
		}
		max := fi.Length - 1
		full := strings.Repeat("x", max)
		out = append(out, fitmodel.S("a"), fitmodel.S(full))
		if max >= 2 {
			out = append(out, fitmodel.S(strings.Repeat("é", max/2)))
		}
		return out
	}
	n := uint(bt.Size * 8)
	mask := uint64(1)<<n - 1
	if n == 64 {
		mask = ^uint64(0)
	}
	bits := []uint64{0, 1, (bt.Invalid - 1) & mask, (bt.Invalid + 1) & mask, uint64(1) << (n - 1), mask, mask - 1, 0x1234567890ABCDEF & mask}
	mk := func(b uint64) fitmodel.Val {
		if bt.Signed {
			return fitmodel.I(fitmodel.SignExtend(b, bt.Size))
		}
		return fitmodel.U(b)
	}
	if fi.Array {
		for _, k := range []int{1, fi.Length} {
			var e []fitmodel.Val
			for i := 0; i < k; i++ {
				e = append(e, mk(bits[(i+k)%len(bits)]))
			}
			out = append(out, fitmodel.Arr(e))
		}
		// element equal to invalid in the middle, trailing invalid
		if fi.Length >= 3 {
			out = append(out, fitmodel.Arr([]fitmodel.Val{mk(1), mk(bt.Invalid), mk(2)}), fitmodel.Arr([]fitmodel.Val{mk(3), mk(bt.Invalid)}))
		}
		return out
	}
	for _, b := range bits {
		if b == bt.Invalid {
			continue
		}
		out = append(out, mk(b))
	}
	return out
}

// boundary: Files whose encoding is larger than the decoder's 4096-byte
// buffer, sized so that the definition message of a later slot (and its first
// data records) start at every offset around the boundary. The heart_rate-only
// records are 2 bytes each and the length of file_id.product_name gives the
// odd offsets.
func boundary(rec *hx.Recorder) {
	n0 := 0
	cells := int64(0)
	fails := 0
	mk := func(nrec, nameLen int, be bool) *gen.FileSpec {
		fs := &gen.FileSpec{Type: 4, HdrCRC: true, Proto: 0x20, BigEndian: be,
			FileId: gen.MsgSpec{Fields: map[string]fitmodel.Val{"ProductName": fitmodel.S(strings.Repeat("n", nameLen))}}}
		recs := gen.SlotSpec{Name: "Records"}
		for i := 0; i < nrec; i++ {
			recs.Msgs = append(recs.Msgs, gen.MsgSpec{Global: 20, Fields: map[string]fitmodel.Val{"HeartRate": fitmodel.U(uint64(60 + i%100))}})
		}
		ev := gen.SlotSpec{Name: "Events"}
		for i := 0; i < 3; i++ {
			ev.Msgs = append(ev.Msgs, gen.MsgSpec{Global: 21, Fields: map[string]fitmodel.Val{
				"Timestamp": fitmodel.T(fitmodel.FitEpochUnix+1000000000+int64(i), 0), "Event": fitmodel.U(uint64(i)), "Data": fitmodel.U(uint64(1000 + i))}})
		}
		lens := gen.SlotSpec{Name: "Lengths", Msgs: []gen.MsgSpec{{Global: 101, Fields: map[string]fitmodel.Val{"TotalStrokes": fitmodel.U(7)}}}}
		// slot order in ActivityFile: Sessions, Laps, Records, DeviceInfos, Events, Lengths ...
		fs.Slots = []gen.SlotSpec{recs, ev, lens}
		return fs
	}
	// find the record count that puts the Events definition just before
	// offset 4096 of the data area: measure with two sizes, then solve
	defOff := func(n int) int {
		f, err := gen.BuildFile(mk(n, 1, false))
		if err != nil {
			return -1
		}
		var buf bytes.Buffer
		if fit.Encode(&buf, f, binary.LittleEndian) != nil {
			return -1
		}
		p, perr := fitmodel.Parse(buf.Bytes())
		if perr != nil {
			return -1
		}
		for i, r := range p.Stream.Recs {
			if r.IsDef && r.Global == 21 {
				return p.Layout.RecStart[i] - int(p.Stream.HeaderSize)
			}
		}
		return -1
	}
	o10, o20 := defOff(10), defOff(20)
	if o10 > 0 && o20 > o10 {
		per := (o20 - o10) / 10
		n0 = 10 + (4096-40-o10)/per
		for n0 > 1 && defOff(n0) > 4096-40 {
			n0--
		}
	}
	if n0 == 0 {
		rec.Note("boundary: could not size the file")
		return
	}
	for shift := 0; shift <= 90; shift++ {
		for _, be := range []bool{false, true} {
			fs := mk(n0+shift/2, 1+shift%2, be)
			cells++
			if msg, ok := roundTrip(rec, fs, map[string]int{}); !ok {
				fails++
				if fails <= 3 {
					rec.Fail("boundary", "", fmt.Sprintf("%d records, product_name of %d bytes, bigEndian=%v (encoding larger than 4096 bytes):\n%s", n0+shift/2, 1+shift%2, be, trunc(msg)), map[string]any{"records": n0 + shift/2, "name_len": 1 + shift%2, "big_endian": be})
				}
			}
		}
	}
	rec.Eval("boundary", cells)
	rec.NonTrivialEnum(cells)
	rec.Class("boundary: files larger than 4096 bytes", cells)
}

func trunc(s string) string {
	if len(s) > 600 {
		return s[:600] + "…"
	}
	return s
}

func TestC06(t *testing.T) {
	hx.Main(t, "C06", func(rec *hx.Recorder) {
		if rp, ok := hx.LoadReplay(); ok {
			var fs gen.FileSpec
			if err := json.Unmarshal(rp.Case, &fs); err != nil {
				t.Fatal(err)
			}
			rec.Eval("replay", 1)
			if msg, ok := roundTrip(rec, &fs, map[string]int{}); !ok {
				rec.Fail(rp.Sub, "", msg, &fs)
			}
			return
		}
		if hx.FirstShard() {
			sweep(rec)
			boundary(rec)
		}
		hx.RapidCheck(t, rec, "files", func(rt *rapid.T, fail func(string, string, any)) {
			fs := gen.GenFile(gen.D{T: rt}, gen.DefaultFileOpts())
			// two files in five are encoded right after an Encode call that
			// fails (the same File with a string that is not UTF-8, or into a
			// writer that refuses data): what the next call writes must not
			// depend on it
			fs.Prelude = []string{"", "", "", "badstring", "failwriter"}[rapid.IntRange(0, 4).Draw(rt, "prelude")]
			labels := map[string]int{}
			specLabels(fs, labels)
			rec.Eval("files", 1)
			msg, ok := roundTrip(rec, fs, labels)
			for k := range labels {
				rec.Class(k, 1)
			}
			if nonTrivial(labels) {
				raw, _ := json.Marshal(fs)
				rec.NonTrivial(hx.FPBytes(raw))
			}
			if rec.WantSample() && len(fs.Slots) <= 2 && nonTrivial(labels) {
				rec.Sample(fs)
			}
			if !ok {
				fail("", msg, fs)
			}
		})
	})
}
