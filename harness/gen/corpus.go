//go:build verif

package gen

import (
	"os"
	"path/filepath"
	"sort"
	"strings"
	"sync"

	"verif/hx"
)

// CorpusFile is one .fit file of the repository's testdata.
type CorpusFile struct {
	Name string
	Data []byte
}

var (
	corpusOnce sync.Once
	corpus     []CorpusFile
)

// Corpus returns every .fit file under <repo>/testdata, sorted by name.
func Corpus() []CorpusFile {
	corpusOnce.Do(func() {
		root := filepath.Join(hx.RepoDir(), "testdata")
		filepath.Walk(root, func(p string, info os.FileInfo, err error) error {
			if err != nil || info.IsDir() || !strings.HasSuffix(p, ".fit") {
				return nil
			}
			data, err := os.ReadFile(p)
			if err != nil {
				return nil
			}
			rel, _ := filepath.Rel(root, p)
			corpus = append(corpus, CorpusFile{Name: rel, Data: data})
			return nil
		})
		sort.Slice(corpus, func(i, j int) bool { return corpus[i].Name < corpus[j].Name })
	})
	return corpus
}

// SmallCorpus returns corpus files of at most max bytes.
func SmallCorpus(max int) []CorpusFile {
	var out []CorpusFile
	for _, c := range Corpus() {
		if len(c.Data) <= max {
			out = append(out, c)
		}
	}
	return out
}
