//go:build verif

package gen

import (
	"encoding/binary"

	"verif/fitmodel"
)

var hostileBases = []byte{0x00, 0x01, 0x02, 0x03, 0x04, 0x05, 0x06, 0x07, 0x08, 0x09, 0x0A, 0x0B, 0x0C, 0x0D, 0x0E, 0x0F, 0x10, 0x11, 0x1F,
	0x80, 0x81, 0x82, 0x83, 0x84, 0x85, 0x86, 0x87, 0x88, 0x89, 0x8A, 0x8B, 0x8C, 0x8D, 0x8E, 0x8F, 0x90, 0x91, 0x9F, 0xFF, 0x20, 0x47, 0xA7}

// MutateSpec applies 1..4 structural mutations to a copy of s. The result is
// in general no longer well-formed.
func MutateSpec(d D, s *fitmodel.Stream) *fitmodel.Stream {
	out := *s
	out.Recs = make([]fitmodel.Rec, len(s.Recs))
	for i, r := range s.Recs {
		r.Fields = append([]fitmodel.FieldDef(nil), r.Fields...)
		r.Dev = append([]fitmodel.DevFieldDef(nil), r.Dev...)
		r.Raw = append([]byte(nil), r.Raw...)
		out.Recs[i] = r
	}
	n := d.Int(1, 4, "nmut")
	for k := 0; k < n && len(out.Recs) > 0; k++ {
		i := d.Int(0, len(out.Recs)-1, "mrec")
		r := &out.Recs[i]
		switch d.Int(0, 14, "mkind") {
		case 14:
			// a look-alike redefinition: the same field list for another
			// message, right after the data that used the original
			if r.IsDef && i+1 < len(out.Recs) {
				dup := *r
				dup.Fields = append([]fitmodel.FieldDef(nil), r.Fields...)
				dup.Global = uint16(d.Int(0, 300, "lookalike"))
				j := i + 1
				for j < len(out.Recs) && !out.Recs[j].IsDef {
					j++
				}
				tail := append([]fitmodel.Rec{dup}, out.Recs[j:]...)
				if j > i+1 {
					tail = append([]fitmodel.Rec{dup, out.Recs[i+1]}, out.Recs[j:]...)
				}
				out.Recs = append(out.Recs[:j], tail...)
			}
		case 0:
			if r.IsDef && len(r.Fields) > 0 {
				f := &r.Fields[d.Int(0, len(r.Fields)-1, "mf")]
				f.Size = []byte{0, 1, 2, 3, 4, 5, 7, 8, 9, 16, 254, 255, f.Size + 1, f.Size - 1}[d.Int(0, 13, "msz")]
			}
		case 1:
			if r.IsDef && len(r.Fields) > 0 {
				f := &r.Fields[d.Int(0, len(r.Fields)-1, "mf")]
				f.Base = hostileBases[d.Int(0, len(hostileBases)-1, "mb")]
			}
		case 2:
			if r.IsDef && len(r.Fields) > 0 {
				r.Fields[d.Int(0, len(r.Fields)-1, "mf")].Num = d.Byte("mn")
			}
		case 3:
			if r.IsDef {
				r.Global = uint16(d.Int(0, 400, "mg"))
				if d.Chance(10, "mginv") {
					r.Global = 0xFFFF
				}
			}
		case 4:
			if r.IsDef {
				r.BigEndian = !r.BigEndian
			}
		case 5:
			r.Local = byte(d.Int(0, 15, "ml"))
		case 6:
			out.Recs = append(out.Recs[:i+1], out.Recs[i:]...)
		case 7:
			if len(out.Recs) > 2 {
				out.Recs = append(out.Recs[:i], out.Recs[i+1:]...)
			}
		case 8:
			j := d.Int(0, len(out.Recs)-1, "mj")
			out.Recs[i], out.Recs[j] = out.Recs[j], out.Recs[i]
		case 9:
			if !r.IsDef && len(r.Raw) > 0 {
				r.Raw = r.Raw[:d.Int(0, len(r.Raw)-1, "mtr")]
			}
		case 10:
			if !r.IsDef {
				r.Raw = append(r.Raw, d.Bytes(d.Int(1, 6, "mex"), "mexb")...)
			}
		case 11:
			if !r.IsDef {
				r.Compressed = !r.Compressed
				r.TimeOffset = byte(d.Int(0, 31, "mto"))
			}
		case 12:
			if r.IsDef {
				r.HasDev = !r.HasDev
				if r.HasDev && d.Bool("mdevf") {
					r.Dev = append(r.Dev, fitmodel.DevFieldDef{Num: d.Byte("a"), Size: d.Byte("b"), Idx: d.Byte("c")})
				}
			}
		case 13:
			if r.IsDef {
				// many fields
				for len(r.Fields) < 255 && d.Chance(97, "more") {
					r.Fields = append(r.Fields, fitmodel.FieldDef{Num: byte(len(r.Fields)), Size: 1, Base: 2})
				}
			}
		}
	}
	return &out
}

// MutateBytes applies byte-level mutations to a FIT image and then, most of
// the time, repairs data size and CRCs so the mutation reaches record logic.
func MutateBytes(d D, in []byte) []byte {
	b := append([]byte(nil), in...)
	n := d.Int(0, 4, "nbm")
	for k := 0; k < n && len(b) > 0; k++ {
		switch d.Int(0, 8, "bmkind") {
		case 0:
			b[d.Int(0, len(b)-1, "bo")] = d.Byte("bv")
		case 1:
			b[d.Int(0, len(b)-1, "bo")] ^= 1 << uint(d.Int(0, 7, "bit"))
		case 2:
			b[0] = []byte{0, 1, 11, 12, 13, 14, 15, 255}[d.Int(0, 7, "hs")]
		case 3:
			if len(b) > 1 {
				b[1] = []byte{0x00, 0x10, 0x20, 0x2F, 0x30, 0xF0, 0xFF}[d.Int(0, 6, "pv")]
			}
		case 4:
			if len(b) >= 8 {
				v := []uint32{0, 1, 0xFFFFFFFF, 0x7FFFFFFF, uint32(len(b)), uint32(len(b)) - 13, uint32(len(b)) - 15, 4096, 4097}[d.Int(0, 8, "ds")]
				binary.LittleEndian.PutUint32(b[4:], v)
			}
		case 5:
			if len(b) >= 12 {
				b[8+d.Int(0, 3, "dt")] = d.Byte("dtv")
			}
		case 6:
			b = b[:d.Int(0, len(b), "trunc")]
		case 7:
			b = append(b, d.Bytes(d.Int(1, 20, "apn"), "apb")...)
		case 8:
			// set some byte to a hostile constant
			b[d.Int(0, len(b)-1, "bo")] = []byte{0, 0xFF, 0x40, 0x4F, 0x60, 0x80, 0x7F, 0x0E, 0x0C}[d.Int(0, 8, "hc")]
		}
	}
	if d.Chance(70, "fix") {
		fitmodel.FixFrame(b, d.Chance(20, "hz"))
	}
	return b
}
