//go:build verif

// Package gen holds the rapid generators shared by the property checks.
package gen

import (
	"sort"
	"strings"
	"sync"
	"unicode/utf8"

	"github.com/tormoder/fit"
	"pgregory.net/rapid"

	"verif/fitmodel"
	"verif/prof"
)

// D wraps a rapid.T with short draw helpers. Every random choice of every
// generator goes through it.
type D struct{ T *rapid.T }

func (d D) Int(lo, hi int, label string) int { return rapid.IntRange(lo, hi).Draw(d.T, label) }
func (d D) Bool(label string) bool           { return rapid.Bool().Draw(d.T, label) }
func (d D) Byte(label string) byte           { return rapid.Byte().Draw(d.T, label) }
func (d D) Chance(pct int, label string) bool {
	return rapid.IntRange(0, 99).Draw(d.T, label) < pct
}
func (d D) Bytes(n int, label string) []byte {
	return rapid.SliceOfN(rapid.Byte(), n, n).Draw(d.T, label)
}

// StreamOpts steers GenStream.
type StreamOpts struct {
	FileType    int      // -1: draw one of the 17
	Msgs        []uint16 // candidate known messages for data records (default: hosted by the file type)
	MinRecs     int
	MaxRecs     int
	Unhosted    bool // also emit known messages the file type does not host
	UnknownMsgs bool
	UnknownFlds bool
	DevFields   bool
	Compressed  bool // compressed timestamp headers
	Narrow      bool // narrower compatible definitions
	BigEndian   bool // allow big-endian definitions
	Redefine    bool // redefine local types freely
	LongArrays  bool // arrays longer than the profile length
	OddStrings  bool // non UTF-8 / unterminated strings
	// StrProfLen is set by the generator around a FieldBytes call: the fixed
	// length the profile gives the string field being drawn (0: unknown)
	StrProfLen    int
	TimeBias      bool // favour timestamp fields and boundary time values (C12)
	NoLocalTime   bool
	FieldFilter   func(m uint16, fi *fitmodel.FieldInfo) bool                       // nil: all
	MaxFields     int                                                               // max fields per definition (default 8)
	ExtraFileIds  bool                                                              // more file_id messages (same type) later in the stream
	Proto         byte                                                              // 0: draw
	CompressedPct int                                                               // chance of a compressed header per record (default 18)
	RedefinePct   int                                                               // chance of forcing a new definition (default 25)
	ValueHint     func(d D, g uint16, fd fitmodel.FieldDef, be bool) ([]byte, bool) // optional override of the bytes of a field
}

// DefaultStreamOpts enables everything a well-formed stream may contain.
func DefaultStreamOpts() StreamOpts {
	return StreamOpts{
		FileType: -1, MinRecs: 1, MaxRecs: 24, Unhosted: true, UnknownMsgs: true, UnknownFlds: true,
		DevFields: true, Compressed: true, Narrow: true, BigEndian: true, Redefine: true, LongArrays: true,
		MaxFields: 8, ExtraFileIds: true,
	}
}

// LocalTimeOpts restricts o to a stream of the messages that carry local times
// (and a timestamp to refer to), so that one Decode call meets several local
// times with equal, zero and different offsets from the reference.
func LocalTimeOpts(d D, o *StreamOpts) {
	ft := []fit.FileType{fit.FileTypeActivity, fit.FileTypeMonitoringA, fit.FileTypeMonitoringB, fit.FileTypeSchedules}[d.Int(0, 3, "ltft")]
	o.FileType = int(ft)
	o.Msgs = nil
	tab := prof.Table()
	for _, m := range prof.HostedMsgs(ft) {
		for _, fi := range tab.Msgs[m].Fields {
			if m != 0 && fi.Kind == fitmodel.KindTimeLocal {
				o.Msgs = append(o.Msgs, m)
				break
			}
		}
	}
	o.TimeBias = true
	o.Unhosted = false
	o.ExtraFileIds = false
	o.MaxFields = 3
	o.MinRecs, o.MaxRecs = 4, 30
}

// GenInfo describes a generated stream for labelling.
type GenInfo struct {
	FileType fit.FileType
	Labels   map[string]int
}

var (
	unknownOnce sync.Once
	unknownPool []uint16
)

// UnknownMsgPool returns message numbers that the profile does not know:
// gaps inside the table range, numbers beyond it, the manufacturer range.
func UnknownMsgPool() []uint16 {
	unknownOnce.Do(func() {
		tab := prof.Table()
		for n := 0; n < 420; n++ {
			if tab.Msgs[uint16(n)] == nil {
				unknownPool = append(unknownPool, uint16(n))
			}
		}
		unknownPool = append(unknownPool, 1000, 5000, 0x7FFF, 0xFF00, 0xFF42, 0xFFFE)
	})
	return unknownPool
}

// CompatibleBases returns the definition base types the model regards as
// compatible with a scalar profile field of base type pb: the same type, and
// integer types of the same signedness that are not wider.
func CompatibleBases(pb fitmodel.BaseType, narrow bool) []byte {
	out := []byte{pb.Code}
	if pb.String || pb.Float {
		return out
	}
	for _, b := range fitmodel.BaseTypes {
		if b.Code == pb.Code || !b.Integer || b.Signed != pb.Signed {
			continue
		}
		if b.Size == pb.Size || (narrow && b.Size < pb.Size) {
			out = append(out, b.Code)
		}
	}
	return out
}

// ElemBytes draws the bytes of one element of base type bt: boundary
// patterns mixed with uniform bytes.
func ElemBytes(d D, bt fitmodel.BaseType, be bool) []byte {
	n := bt.Size
	var v uint64
	mask := uint64(1)<<(8*uint(n)) - 1
	if n == 8 {
		mask = ^uint64(0)
	}
	switch d.Int(0, 11, "pat") {
	case 0:
		v = 0
	case 1:
		v = 1
	case 2:
		v = bt.Invalid
	case 3:
		v = bt.Invalid - 1
	case 4:
		v = bt.Invalid + 1
	case 5:
		v = uint64(1) << (8*uint(n) - 1) // sign bit
	case 6:
		v = mask
	case 7:
		v = mask - 1 // -2 for signed types
	default:
		b := d.Bytes(n, "raw")
		return b
	}
	return fitmodel.PutWireUint(v&mask, n, be)
}

// stringPool holds valid UTF-8 pieces: ASCII, 2-, 3- and 4-byte characters,
// the first and last code point of each encoded length, a control character,
// and the replacement character U+FFFD written literally (valid UTF-8 that a
// rune-by-rune validity test mistakes for a decoding error).
var stringPool = []string{"a", "Z", "fit", "héllo", "日本", "x y", "Garmin", "0123456789abcdef", "ünï", "😀", "q",
	"\uFFFD", "a\uFFFDb", "\u0080", "\u07FF", "\u0800", "\uFFFF", "\U00010000", "\U0010FFFF", "\x7f\x01"}

// StringBytes draws the wire bytes of a string field of the given size.
func StringBytes(d D, size int, odd bool) []byte {
	b := make([]byte, size)
	if size == 0 {
		return b
	}
	mode := d.Int(0, 6, "smode")
	if mode == 6 {
		// the whole field filled with 3- or 4-byte characters at a drawn
		// phase, unterminated: whatever fixed length the profile cuts it
		// to, some cut lands inside a character
		r := []string{"日", "€", "😀", "本"}[d.Int(0, 3, "mbr")]
		fill := strings.Repeat("a", d.Int(0, 3, "mbphase"))
		for len(fill) < size {
			fill += r
		}
		n := copy(b, fill)
		// do not end inside a character: pad the tail with ASCII
		for n > 0 && !runeStart(b[n-1]) && !utf8.Valid(b[:n]) {
			n--
		}
		for i := size - 1; i >= 0 && !utf8.Valid(b); i-- {
			b[i] = 'z'
		}
		return b
	}
	s := stringPool[d.Int(0, len(stringPool)-1, "spool")]
	for len(s) < size && d.Chance(40, "sext") {
		s += stringPool[d.Int(0, len(stringPool)-1, "spool2")]
	}
	switch mode {
	case 0: // terminated, padded with NUL
		n := copy(b, s)
		if n == size {
			// cut back to a rune boundary and terminate
			n = size - 1
			for n > 0 && !runeStart(b[n]) {
				n--
			}
			for i := n; i < size; i++ {
				b[i] = 0
			}
		}
	case 1: // exactly filling, unterminated
		for i := 0; i < size; i++ {
			b[i] = 'a' + byte(i%26)
		}
	case 2: // empty
	case 3: // terminated, garbage after the terminator
		n := copy(b, s)
		if n >= size {
			n = size - 1
		}
		for n > 0 && !runeStart(b[n]) {
			n--
		}
		b[n] = 0
		for i := n + 1; i < size; i++ {
			b[i] = 'G'
		}
	case 4:
		if odd {
			// arbitrary bytes
			copy(b, d.Bytes(size, "sraw"))
			return b
		}
		fallthrough
	default:
		n := copy(b, s)
		if n == size {
			n = size - 1
			for n > 0 && !runeStart(b[n]) {
				n--
			}
			for i := n; i < size; i++ {
				b[i] = 0
			}
		}
	}
	return b
}

func runeStart(c byte) bool { return c&0xC0 != 0x80 }

// DrawFieldDef draws a definition triple compatible with profile field fi.
func DrawFieldDef(d D, fi *fitmodel.FieldInfo, o *StreamOpts) fitmodel.FieldDef {
	pb := fitmodel.MustBase(fi.Base)
	fd := fitmodel.FieldDef{Num: fi.Num, Base: pb.Code}
	switch {
	case pb.String:
		max := fi.Length + 6
		if max > 255 {
			max = 255
		}
		switch d.Int(0, 6, "ssize") {
		case 0:
			fd.Size = byte(fi.Length)
		case 1:
			fd.Size = 1
		case 6:
			// longer than the profile length
			fd.Size = byte(fi.Length + d.Int(1, 6, "sover"))
			if int(fd.Size) > max {
				fd.Size = byte(max)
			}
		case 2:
			fd.Size = byte(d.Int(0, max, "ssz"))
		default:
			fd.Size = byte(d.Int(1, max, "ssz"))
		}
	case fi.Array:
		maxk := 255 / pb.Size
		k := fi.Length
		switch d.Int(0, 5, "alen") {
		case 0:
			k = 1
		case 1:
			if fi.Length > 1 {
				k = d.Int(1, fi.Length, "ak")
			}
		case 2:
			if o.LongArrays {
				hi := fi.Length + 4
				if hi > maxk {
					hi = maxk
				}
				k = d.Int(1, hi, "ak")
			}
		}
		if k < 1 {
			k = 1
		}
		if k > maxk {
			k = maxk
		}
		fd.Size = byte(k * pb.Size)
	default:
		bases := CompatibleBases(pb, o.Narrow)
		if len(bases) > 1 && d.Chance(35, "alt") {
			fd.Base = bases[d.Int(1, len(bases)-1, "altbase")]
		}
		fd.Size = byte(fitmodel.MustBase(fd.Base).Size)
	}
	return fd
}

// FieldBytes draws the payload bytes for one field under definition fd.
func FieldBytes(d D, fd fitmodel.FieldDef, be bool, o *StreamOpts, timeHint *uint32, kind int) []byte {
	bt, ok := fitmodel.Base(fd.Base)
	if !ok {
		return d.Bytes(int(fd.Size), "unk")
	}
	if bt.String {
		if pl := o.StrProfLen; pl > 0 && int(fd.Size) > pl && d.Int(0, 3, "stail") == 0 {
			// a field wider than the profile's fixed length, filled
			// completely by a device that cuts a multi-byte character at its
			// own field boundary: ASCII, then the first byte(s) of a 2-, 3-
			// or 4-byte character at the very end, unterminated. The part a
			// re-encode keeps (the first pl-1 bytes) is valid text, what
			// follows it is not.
			b := make([]byte, fd.Size)
			for i := range b {
				b[i] = 'A' + byte(i%26)
			}
			tail := [][]byte{{0xC3}, {0xE2, 0x82}, {0xF0, 0x9F, 0x98}, {0xE6}}[d.Int(0, 3, "stailkind")]
			if len(tail) > int(fd.Size)-(pl-1) {
				tail = tail[:int(fd.Size)-(pl-1)]
			}
			copy(b[len(b)-len(tail):], tail)
			return b
		}
		return StringBytes(d, int(fd.Size), o.OddStrings)
	}
	if (kind == fitmodel.KindTimeUTC || kind == fitmodel.KindTimeLocal) && bt.Size == 4 && int(fd.Size) == 4 {
		return fitmodel.PutWireUint(uint64(drawTime(d, timeHint, kind)), 4, be)
	}
	if kind == fitmodel.KindLat && bt.Size == 4 && d.Chance(70, "latvalid") {
		// mostly valid latitudes, including the range ends
		var v int32
		switch d.Int(0, 5, "latpat") {
		case 0:
			v = -(1 << 30)
		case 1:
			v = 1<<30 - 1
		case 2:
			v = 1<<30 + 1
		default:
			v = int32(d.Int(-(1 << 30), 1<<30-1, "lat"))
		}
		return fitmodel.PutWireUint(uint64(uint32(v)), 4, be)
	}
	var out []byte
	for i := 0; i+bt.Size <= int(fd.Size); i += bt.Size {
		out = append(out, ElemBytes(d, bt, be)...)
	}
	for len(out) < int(fd.Size) {
		out = append(out, d.Byte("tail"))
	}
	return out
}

func drawTime(d D, hint *uint32, kind int) uint32 {
	var base uint32 = 0x3B9ACA00 // ~ 2021
	if hint != nil && *hint != 0 {
		base = *hint
	}
	var v uint32
	if kind == fitmodel.KindTimeLocal && d.Int(0, 2, "ltpat") == 0 {
		// local times at offset exactly 0 from the reference and at whole
		// and half hours from it, so that one file holds several local
		// times with equal, zero and different zone offsets
		v = base + uint32([]int{0, 0, 3600, -3600, 7200, 19800, -12600, 1, -1}[d.Int(0, 8, "ltoff")])
		return v
	}
	switch d.Int(0, 9, "tpat") {
	case 0:
		v = 0xFFFFFFFF
	case 1:
		v = uint32(d.Int(1, 0x0FFFFFFF, "tsys")) // system time (< marker)
	case 2:
		v = 0x10000000
	case 3:
		v = 0xFFFFFFFE
	case 4:
		v = base&^0x1F + uint32(d.Int(0, 63, "troll")) // near a 5 bit rollover
	case 5:
		if kind == fitmodel.KindTimeLocal {
			v = base + uint32(d.Int(-14*3600, 14*3600, "tz")) // plausible zone offset
		} else {
			v = base + uint32(d.Int(0, 100000, "tadv"))
		}
	default:
		v = base + uint32(d.Int(0, 200, "tstep"))
	}
	if hint != nil && v != 0xFFFFFFFF && kind == fitmodel.KindTimeUTC {
		*hint = v
	}
	return v
}

type slotState struct {
	def *fitmodel.Rec
}

// GenStream draws a well-formed FIT stream whose definitions are compatible
// with the profile (as the model defines compatible).
func GenStream(d D, o StreamOpts) (*fitmodel.Stream, *GenInfo) {
	tab := prof.Table()
	info := &GenInfo{Labels: map[string]int{}}
	ft := o.FileType
	if ft < 0 {
		ft = int(prof.FileTypes[d.Int(0, len(prof.FileTypes)-1, "ftype")])
	}
	info.FileType = fit.FileType(ft)
	s := &fitmodel.Stream{HeaderSize: 12, Proto: 0x20, ProfileVer: uint16(d.Int(0, 65535, "profver"))}
	if o.Proto != 0 {
		s.Proto = o.Proto
	} else if d.Chance(30, "proto") {
		s.Proto = []byte{0x10, 0x00, 0x2F, 0x21}[d.Int(0, 3, "protov")]
	}
	if d.Bool("hdr14") {
		s.HeaderSize = 14
		s.HdrCRCZero = d.Chance(25, "hcrc0")
	}

	var timeHint uint32 = 0x3B9ACA00 + uint32(d.Int(0, 1000000, "t0"))

	// file_id definition + data on a drawn local type.
	fidLocal := byte(0)
	if d.Chance(30, "fidlocal") {
		fidLocal = byte(d.Int(0, 15, "fidl"))
	}
	fidBE := o.BigEndian && d.Chance(30, "fidbe")
	fidDef := fitmodel.Rec{IsDef: true, Local: fidLocal, BigEndian: fidBE, Global: 0}
	fidDef.Fields = append(fidDef.Fields, fitmodel.FieldDef{Num: 0, Size: 1, Base: 0x00})
	fidMi := tab.Msgs[0]
	if fidMi != nil {
		for _, n := range prof.FieldNums(0) {
			if n == 0 || !d.Chance(40, "fidf") {
				continue
			}
			fidDef.Fields = append(fidDef.Fields, DrawFieldDef(d, fidMi.Fields[n], &o))
		}
	}
	if o.DevFields && d.Int(0, 7, "fiddev") == 0 {
		// the file_id definition itself declares developer fields (record
		// header 0x6L as the very first record)
		fidDef.HasDev = true
		for k := d.Int(0, 3, "fidndev"); k > 0; k-- {
			fidDef.Dev = append(fidDef.Dev, fitmodel.DevFieldDef{Num: d.Byte("fiddn"), Size: byte(d.Int(0, 9, "fidds")), Idx: d.Byte("fiddi")})
		}
		info.Labels["file_id definition with developer fields"]++
	}
	mkFileID := func() (r fitmodel.Rec) {
		r = fitmodel.Rec{Local: fidLocal}
		defer func() {
			for _, dv := range fidDef.Dev {
				for k := 0; k < int(dv.Size); k++ {
					r.Raw = append(r.Raw, byte(0xD0+k))
				}
			}
		}()
		for _, fd := range fidDef.Fields {
			if fd.Num == 0 {
				r.Raw = append(r.Raw, byte(ft))
				continue
			}
			fi := fidMi.Fields[fd.Num]
			o.StrProfLen = 0
			if !fi.Array {
				o.StrProfLen = fi.Length
			}
			r.Raw = append(r.Raw, FieldBytes(d, fd, fidBE, &o, nil, fi.Kind)...)
		}
		return r
	}
	s.Recs = append(s.Recs, fidDef, mkFileID())

	var slots [16]*fitmodel.Rec
	slots[fidLocal] = &s.Recs[0]
	fidDefCopy := fidDef
	slots[fidLocal] = &fidDefCopy

	hosted := o.Msgs
	if hosted == nil {
		hosted = prof.HostedMsgs(fit.FileType(ft))
	}
	if !o.ExtraFileIds {
		var h2 []uint16
		for _, m := range hosted {
			if m != 0 {
				h2 = append(h2, m)
			}
		}
		hosted = h2
	}
	var unhosted []uint16
	if o.Unhosted {
		isHosted := map[uint16]bool{}
		for _, m := range prof.HostedMsgs(fit.FileType(ft)) {
			isHosted[m] = true
		}
		for _, m := range prof.MsgNums() {
			if !isHosted[m] {
				unhosted = append(unhosted, m)
			}
		}
	}

	nrec := d.Int(o.MinRecs, o.MaxRecs, "nrec")
	maxFields := o.MaxFields
	if maxFields <= 0 {
		maxFields = 8
	}
	for i := 0; i < nrec; i++ {
		// now and then a field_description message that describes a
		// developer field of a definition that is in force on another local
		// type, with a drawn base type (it may or may not fit the size the
		// definition gives the developer field: only the definition governs
		// how records are laid out)
		if o.DevFields && tab.Msgs[206] != nil {
			var live []fitmodel.DevFieldDef
			holder := -1
			for l := 0; l < 16; l++ {
				if slots[l] != nil && len(slots[l].Dev) > 0 {
					live, holder = slots[l].Dev, l
				}
			}
			if holder >= 0 && d.Int(0, 5, "fdesc") == 0 {
				local := d.Int(0, 15, "fdesclocal")
				if local == holder {
					local = (local + 1) % 16
				}
				dv := live[d.Int(0, len(live)-1, "fdescdev")]
				mi := tab.Msgs[206]
				def := fitmodel.Rec{IsDef: true, Local: byte(local), Global: 206, BigEndian: o.BigEndian && d.Bool("fdescbe")}
				raw := []byte{}
				vals := map[byte]byte{0: dv.Idx, 1: dv.Num, 2: []byte{0x02, 0x84, 0x86, 0x88, 0x8E, 0x01, 0x07, 0x0D, 0x8C}[d.Int(0, 8, "fdescbase")]}
				for _, n := range []byte{0, 1, 2} {
					if fi := mi.Fields[n]; fi != nil && fitmodel.MustBase(fi.Base).Size == 1 && !fi.Array {
						def.Fields = append(def.Fields, fitmodel.FieldDef{Num: n, Size: 1, Base: fi.Base})
						raw = append(raw, vals[n])
					}
				}
				if len(def.Fields) == 3 {
					s.Recs = append(s.Recs, def, fitmodel.Rec{Local: byte(local), Raw: raw})
					dc := def
					slots[local] = &dc
					info.Labels["field-description-for-a-live-developer-field"]++
					continue
				}
			}
		}
		// choose the message
		var g uint16
		known := true
		c := d.Int(0, 99, "mkind")
		switch {
		case o.UnknownMsgs && c < 8:
			pool := UnknownMsgPool()
			g = pool[d.Int(0, len(pool)-1, "unk")]
			known = false
			info.Labels["unknown-msg"]++
		case o.Unhosted && c < 16 && len(unhosted) > 0:
			g = unhosted[d.Int(0, len(unhosted)-1, "unh")]
			info.Labels["unhosted-msg"]++
		case o.ExtraFileIds && c < 19:
			g = 0
			info.Labels["extra-file-id"]++
		default:
			g = hosted[d.Int(0, len(hosted)-1, "msg")]
		}

		// find a slot already defined for g, or define one
		local := -1
		redefPct := o.RedefinePct
		if redefPct == 0 {
			redefPct = 25
		}
		if !(o.Redefine && d.Chance(redefPct, "redef")) {
			for l := 0; l < 16; l++ {
				if slots[l] != nil && slots[l].Global == g && d.Chance(85, "reuse") {
					local = l
					break
				}
			}
		}
		comprPct := o.CompressedPct
		if comprPct == 0 {
			comprPct = 18
		}
		compressed := o.Compressed && d.Chance(comprPct, "compr")
		if local >= 0 && compressed && local > 3 {
			compressed = false
		}
		if local < 0 {
			hi := 15
			if compressed {
				hi = 3
			}
			local = d.Int(0, hi, "local")
			if slots[local] != nil {
				info.Labels["redefinition"]++
				if slots[local].Global != g {
					info.Labels["redefinition-other-msg"]++
				}
			}
			def := fitmodel.Rec{IsDef: true, Local: byte(local), Global: g}
			def.BigEndian = o.BigEndian && d.Chance(40, "be")
			mi := tab.Msgs[g]
			sameLayout := false
			if prev := slots[local]; prev != nil && prev.Global == g && o.BigEndian && o.Redefine && d.Int(0, 3, "samelayout") == 0 {
				// redefinition that changes nothing but the byte order
				def.BigEndian = !prev.BigEndian
				def.Fields = append([]fitmodel.FieldDef(nil), prev.Fields...)
				def.HasDev = prev.HasDev
				def.Dev = append([]fitmodel.DevFieldDef(nil), prev.Dev...)
				info.Labels["redefinition-byte-order-only"]++
				sameLayout = true
			} else if known && mi != nil {
				nums := prof.FieldNums(g)
				var cand []*fitmodel.FieldInfo
				for _, n := range nums {
					fi := mi.Fields[n]
					if fi.SIndex < 0 || fi.SIndex >= mi.NFields {
						continue
					}
					if o.FieldFilter != nil && !o.FieldFilter(g, fi) {
						continue
					}
					if o.NoLocalTime && fi.Kind == fitmodel.KindTimeLocal {
						continue
					}
					cand = append(cand, fi)
				}
				if g == 0 {
					// extra file_id: always carry the type
					def.Fields = append(def.Fields, fitmodel.FieldDef{Num: 0, Size: 1, Base: 0})
				}
				if len(cand) > 0 {
					nf := d.Int(0, min(maxFields, len(cand)), "nf")
					if o.TimeBias {
						for _, fi := range cand {
							if fi.Kind == fitmodel.KindTimeUTC || fi.Kind == fitmodel.KindTimeLocal {
								if d.Chance(80, "tf") && !hasField(def.Fields, fi.Num) {
									def.Fields = append(def.Fields, DrawFieldDef(d, fi, &o))
								}
							}
						}
					}
					var special []*fitmodel.FieldInfo
					for _, fi := range cand {
						if Interesting(g, fi) {
							special = append(special, fi)
						}
					}
					start := d.Int(0, len(cand)-1, "fstart")
					step := 1 + d.Int(0, 6, "fstep")
					for k := 0; k < nf; k++ {
						fi := cand[(start+k*step)%len(cand)]
						if len(special) > 0 && d.Chance(45, "special") {
							fi = special[d.Int(0, len(special)-1, "spi")]
						}
						if hasField(def.Fields, fi.Num) {
							continue
						}
						def.Fields = append(def.Fields, DrawFieldDef(d, fi, &o))
					}
				}
				if o.UnknownFlds && d.Chance(25, "unkf") {
					for k := d.Int(1, 2, "nunk"); k > 0; k-- {
						n := byte(d.Int(0, 252, "unkn"))
						if mi.Fields[n] != nil || hasField(def.Fields, n) {
							continue
						}
						def.Fields = append(def.Fields, drawUnknownFieldDef(d, n))
						info.Labels["unknown-field"]++
					}
				}
				// field order permutation
				if len(def.Fields) > 1 && d.Chance(50, "perm") {
					j := d.Int(0, len(def.Fields)-1, "pj")
					k := d.Int(0, len(def.Fields)-1, "pk")
					def.Fields[j], def.Fields[k] = def.Fields[k], def.Fields[j]
				}
			} else {
				// unknown message: arbitrary valid definitions, avoiding
				// field 253 (see DESIGN C12)
				for k := d.Int(0, 4, "nuf"); k > 0; k-- {
					n := byte(d.Int(0, 252, "ufn"))
					if hasField(def.Fields, n) {
						continue
					}
					def.Fields = append(def.Fields, drawUnknownFieldDef(d, n))
				}
			}
			if !sameLayout && o.DevFields && d.Chance(15, "dev") {
				def.HasDev = true
				bigDev := d.Int(0, 5, "bigdev") == 0
				ndev := d.Int(0, 4, "ndev")
				if bigDev {
					ndev = d.Int(3, 4, "ndevbig")
				}
				manyDev := !bigDev && d.Int(0, 7, "manydev") == 0
				if manyDev {
					// the count byte over its whole range, with the values
					// around 256/3 and 512/3 where 3*n crosses a byte
					ndev = []int{85, 86, 128, 170, 171, 255, d.Int(5, 255, "ndevmany")}[d.Int(0, 6, "ndevsel")]
					if ndev >= 86 {
						info.Labels["dev-fields>=86"]++
					}
				}
				for k := ndev; k > 0; k-- {
					sz := d.Int(0, 9, "ds")
					if manyDev {
						sz = d.Int(0, 2, "dsmany")
					}
					if bigDev {
						sz = d.Int(200, 255, "dsbig") // developer payloads beyond any scratch buffer
					}
					def.Dev = append(def.Dev, fitmodel.DevFieldDef{Num: d.Byte("dn"), Size: byte(sz), Idx: d.Byte("di")})
				}
				info.Labels["dev-fields"]++
			}
			s.Recs = append(s.Recs, def)
			dc := def
			slots[local] = &dc
		}
		def := slots[local]
		r := fitmodel.Rec{Local: byte(local)}
		if compressed && local <= 3 {
			r.Compressed = true
			r.TimeOffset = byte(d.Int(0, 31, "toff"))
		}
		mi := tab.Msgs[def.Global]
		for _, fd := range def.Fields {
			kind := 0
			o.StrProfLen = 0
			if mi != nil && mi.Fields[fd.Num] != nil {
				kind = mi.Fields[fd.Num].Kind
				if !mi.Fields[fd.Num].Array {
					o.StrProfLen = mi.Fields[fd.Num].Length
				}
			}
			if def.Global == 0 && fd.Num == 0 {
				r.Raw = append(r.Raw, byte(ft))
				continue
			}
			th := &timeHint
			if fd.Num != 253 {
				th = nil
				if kind == fitmodel.KindTimeLocal || kind == fitmodel.KindTimeUTC {
					tmp := timeHint
					th = &tmp
				}
			}
			if o.ValueHint != nil {
				if b, ok := o.ValueHint(d, def.Global, fd, def.BigEndian); ok {
					r.Raw = append(r.Raw, b...)
					continue
				}
			}
			r.Raw = append(r.Raw, FieldBytes(d, fd, def.BigEndian, &o, th, kind)...)
		}
		for _, dv := range def.Dev {
			r.Raw = append(r.Raw, d.Bytes(int(dv.Size), "devraw")...)
		}
		s.Recs = append(s.Recs, r)
	}
	return s, info
}

// componentSources are the Go names of fields the component rules read.
var componentSources = map[string]bool{
	"Altitude": true, "Speed": true, "CompressedSpeedDistance": true, "Cycles": true, "CompressedAccumulatedPower": true,
	"AvgSpeed": true, "MaxSpeed": true, "AvgAltitude": true, "MaxAltitude": true, "MinAltitude": true,
	"Data16": true, "Data": true, "Event": true,
}

// Interesting reports fields whose decoding is more than copying an unsigned
// scalar: signed types, arrays, strings, coordinates, times, component
// sources.
func Interesting(g uint16, fi *fitmodel.FieldInfo) bool {
	pb := fitmodel.MustBase(fi.Base)
	if fi.Kind != fitmodel.KindNative || fi.Array || pb.Signed || pb.String || pb.Float {
		return true
	}
	return fitmodel.ExpandsComponents(g) && componentSources[fi.Name]
}

func hasField(fs []fitmodel.FieldDef, n byte) bool {
	for _, f := range fs {
		if f.Num == n {
			return true
		}
	}
	return false
}

func drawUnknownFieldDef(d D, n byte) fitmodel.FieldDef {
	bt := fitmodel.BaseTypes[d.Int(0, len(fitmodel.BaseTypes)-1, "ubt")]
	fd := fitmodel.FieldDef{Num: n, Base: bt.Code}
	if bt.String {
		fd.Size = byte(d.Int(0, 12, "usz"))
	} else {
		fd.Size = byte(bt.Size * d.Int(1, 3, "uk"))
	}
	if d.Int(0, 7, "ubig") == 0 {
		// occasionally a large field (up to the 255-byte maximum)
		k := d.Int(1, 255/bt.Size, "ubigk")
		fd.Size = byte(k * bt.Size)
	}
	return fd
}

func min(a, b int) int {
	if a < b {
		return a
	}
	return b
}

// SortedLabels renders a label map deterministically.
func SortedLabels(m map[string]int) []string {
	var out []string
	for k := range m {
		out = append(out, k)
	}
	sort.Strings(out)
	return out
}
