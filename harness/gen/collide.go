//go:build verif

package gen

import (
	"hash/adler32"
	"hash/crc32"

	"verif/fitmodel"
	"verif/prof"
)

// DefPair is two different field lists for the same message whose field
// definition bytes (3 bytes per field, in order) have the same checksum under
// one of the checksums a program is likely to reach for.
type DefPair struct {
	Hash string
	A, B []fitmodel.FieldDef
}

// CollidingDefs searches (deterministically, by a birthday search over
// drawn unknown byte-typed fields around one known one-byte field) pairs of
// field lists of message global that collide under CRC-32 (IEEE and
// Castagnoli), CRC-16/ARC, Adler-32 and the plain byte sum. Two byte strings
// of equal length with equal CRC have equal CRC after any common prefix and
// before any common suffix, whatever the initial value - so the pairs collide
// under any fingerprint of the form crc(prefix || field bytes || suffix). A
// decoder that recognises "the same definition again" by such a fingerprint
// confuses the two. known is the (number, base type) of a one-byte scalar
// field of the message: it comes first in A and last in B.
func CollidingDefs(global uint16, known fitmodel.FieldDef, perHash int) []DefPair {
	mi := prof.Table().Msgs[global]
	var free []byte
	for n := 1; n < 250; n++ {
		if mi == nil || mi.Fields[byte(n)] == nil {
			free = append(free, byte(n))
		}
	}
	bases := []byte{0x00, 0x01, 0x02, 0x0A, 0x0D}
	x := uint64(0x9E3779B97F4A7C15) ^ uint64(global)<<32 ^ uint64(known.Num)
	next := func() uint64 { x ^= x << 13; x ^= x >> 7; x ^= x << 17; return x }
	draw3 := func() []fitmodel.FieldDef {
		for {
			var out []fitmodel.FieldDef
			seen := map[byte]bool{}
			for len(out) < 3 {
				n := free[next()%uint64(len(free))]
				if seen[n] {
					continue
				}
				seen[n] = true
				out = append(out, fitmodel.FieldDef{Num: n, Size: byte(1 + next()%4), Base: bases[next()%uint64(len(bases))]})
			}
			return out
		}
	}
	raw := func(fds []fitmodel.FieldDef) []byte {
		var b []byte
		for _, f := range fds {
			b = append(b, f.Num, f.Size, f.Base)
		}
		return b
	}
	cast := crc32.MakeTable(crc32.Castagnoli)
	hashes := []struct {
		name string
		f    func([]byte) uint32
	}{
		{"CRC-32 (IEEE)", crc32.ChecksumIEEE},
		{"CRC-32C (Castagnoli)", func(b []byte) uint32 { return crc32.Checksum(b, cast) }},
		{"CRC-16/ARC", func(b []byte) uint32 { return uint32(fitmodel.CRC(b)) }},
		{"Adler-32", adler32.Checksum},
		{"byte sum", func(b []byte) uint32 {
			s := uint32(0)
			for _, c := range b {
				s += uint32(c)
			}
			return s
		}},
	}
	const n = 1 << 17
	as := make([][]fitmodel.FieldDef, n)
	bs := make([][]fitmodel.FieldDef, n)
	for i := 0; i < n; i++ {
		as[i] = append([]fitmodel.FieldDef{known}, draw3()...)
		bs[i] = append(draw3(), known)
	}
	var out []DefPair
	for _, h := range hashes {
		idx := make(map[uint32]int, n)
		for i := range as {
			idx[h.f(raw(as[i]))] = i
		}
		found := 0
		for j := range bs {
			if i, ok := idx[h.f(raw(bs[j]))]; ok {
				out = append(out, DefPair{Hash: h.name, A: as[i], B: bs[j]})
				found++
				if found == perHash {
					break
				}
			}
		}
	}
	return out
}

// CollisionStream is an activity file in which local type 1 is defined for
// the record message with p.A, then with p.B, then with p.A again, a record
// after each definition (the known field carries 100, 150, 200).
func CollisionStream(p DefPair, be bool) *fitmodel.Stream {
	rec := func(fds []fitmodel.FieldDef, known byte, v byte) fitmodel.Rec {
		r := fitmodel.Rec{Local: 1}
		for _, f := range fds {
			for k := 0; k < int(f.Size); k++ {
				if f.Num == known {
					r.Raw = append(r.Raw, v)
				} else {
					r.Raw = append(r.Raw, byte(17*(k+1))+f.Num)
				}
			}
		}
		return r
	}
	known := p.A[0].Num
	def := func(fds []fitmodel.FieldDef) fitmodel.Rec {
		return fitmodel.Rec{IsDef: true, Local: 1, Global: 20, BigEndian: be, Fields: fds}
	}
	return &fitmodel.Stream{HeaderSize: 12, Proto: 0x20, Recs: []fitmodel.Rec{
		{IsDef: true, Local: 0, Global: 0, Fields: []fitmodel.FieldDef{{Num: 0, Size: 1, Base: 0}}}, {Local: 0, Raw: []byte{4}},
		def(p.A), rec(p.A, known, 100), def(p.B), rec(p.B, known, 150), def(p.A), rec(p.A, known, 200), def(p.B), rec(p.B, known, 99),
	}}
}
