//go:build verif

package gen

import (
	"bufio"
	"bytes"
	"io"
	"os"
	"strings"
)

// ReaderKind hands the same bytes to the library through one of the concrete
// reader types programs really use. Decoding must not depend on what else the
// reader's dynamic type can do (seek, report a size, read bytes singly).
type ReaderKind struct {
	Name string
	// Open returns a reader positioned at the first byte of data, a function
	// reporting how many bytes of data have been consumed from the underlying
	// source so far (-1 if that cannot be observed), and a cleanup function.
	Open func(data []byte) (r io.Reader, consumed func() int, done func(), err error)
}

// prelude is put in front of the data for the seekable kinds, so that the
// reader is not at offset 0 when the library gets it.
var prelude = []byte("PRELUDE: 37 bytes that are not FIT...\n")

// ReaderKinds lists the reader kinds. dir is where temporary files go.
func ReaderKinds(dir string) []ReaderKind {
	return []ReaderKind{
		{"*bytes.Reader positioned after a prelude", func(data []byte) (io.Reader, func() int, func(), error) {
			all := append(append([]byte{}, prelude...), data...)
			r := bytes.NewReader(all)
			r.Seek(int64(len(prelude)), io.SeekStart)
			return r, func() int {
				pos, _ := r.Seek(0, io.SeekCurrent)
				return int(pos) - len(prelude)
			}, func() {}, nil
		}},
		{"*strings.Reader", func(data []byte) (io.Reader, func() int, func(), error) {
			r := strings.NewReader(string(data))
			return r, func() int { return len(data) - r.Len() }, func() {}, nil
		}},
		{"*bytes.Buffer", func(data []byte) (io.Reader, func() int, func(), error) {
			b := bytes.NewBuffer(append(make([]byte, 0, len(data)+64), data...))
			return b, func() int { return len(data) - b.Len() }, func() {}, nil
		}},
		{"*io.SectionReader over a larger buffer", func(data []byte) (io.Reader, func() int, func(), error) {
			all := append(append(append([]byte{}, prelude...), data...), prelude...)
			r := io.NewSectionReader(bytes.NewReader(all), int64(len(prelude)), int64(len(data)))
			return r, func() int {
				pos, _ := r.Seek(0, io.SeekCurrent)
				return int(pos)
			}, func() {}, nil
		}},
		{"*io.LimitedReader over a longer stream", func(data []byte) (io.Reader, func() int, func(), error) {
			all := append(append([]byte{}, data...), prelude...)
			r := &io.LimitedReader{R: bytes.NewReader(all), N: int64(len(data))}
			return r, func() int { return len(data) - int(r.N) }, func() {}, nil
		}},
		{"io.MultiReader of two halves", func(data []byte) (io.Reader, func() int, func(), error) {
			h := len(data) / 2
			return io.MultiReader(bytes.NewReader(data[:h]), bytes.NewReader(data[h:])), func() int { return -1 }, func() {}, nil
		}},
		{"*bufio.Reader", func(data []byte) (io.Reader, func() int, func(), error) {
			return bufio.NewReaderSize(bytes.NewReader(data), 64), func() int { return -1 }, func() {}, nil
		}},
		{"regular *os.File positioned after a prelude", func(data []byte) (io.Reader, func() int, func(), error) {
			f, err := os.CreateTemp(dir, "readerkind-*.bin")
			if err != nil {
				return nil, nil, nil, err
			}
			done := func() { f.Close(); os.Remove(f.Name()) }
			if _, err := f.Write(append(append([]byte{}, prelude...), data...)); err != nil {
				done()
				return nil, nil, nil, err
			}
			if _, err := f.Seek(int64(len(prelude)), io.SeekStart); err != nil {
				done()
				return nil, nil, nil, err
			}
			return f, func() int {
				pos, _ := f.Seek(0, io.SeekCurrent)
				return int(pos) - len(prelude)
			}, done, nil
		}},
		{"*os.File end of a pipe", func(data []byte) (io.Reader, func() int, func(), error) {
			pr, pw, err := os.Pipe()
			if err != nil {
				return nil, nil, nil, err
			}
			go func() {
				pw.Write(data)
				pw.Close()
			}()
			return pr, func() int { return -1 }, func() { pr.Close() }, nil
		}},
	}
}
