//go:build verif

package gen

import (
	"errors"
	"fmt"
	"io"
	"os"
	"syscall"
)

// ErrFault is the non-EOF error injected by fault readers.
var ErrFault = errors.New("verif: injected read fault")

// Chunking describes how a byte slice is handed to the library.
type Chunking struct {
	Kind  string `json:"kind"`  // whole | one | fixed | list | dataeof
	Size  int    `json:"size"`  // for fixed
	Sizes []int  `json:"sizes"` // for list (cycled)
	// Fault injection: if FaultAt >= 0 a non-EOF error is returned once
	// FaultAt bytes have been delivered. FaultWithData delivers the last
	// chunk together with the error ((n>0, err) style).
	FaultAt       int  `json:"fault_at"`
	FaultWithData bool `json:"fault_with_data"`
	// CutAt >= 0 truncates the input to CutAt bytes (clean EOF).
	CutAt int `json:"cut_at"`
	// FaultErr selects the error value of the injected fault: "" is ErrFault,
	// "unexpected-eof" is io.ErrUnexpectedEOF itself (what gzip, flate, tar
	// and short HTTP bodies report for a broken stream), "closed-pipe" is
	// io.ErrClosedPipe.
	FaultErr string `json:"fault_error,omitempty"`
	// Empty > 1: every Empty-th Read call returns (0, nil) without
	// delivering anything - allowed by the io.Reader contract.
	Empty int `json:"empty_read_every,omitempty"`
	// EmptyRun > 0: once EmptyRunAt bytes have been delivered, the next
	// EmptyRun Read calls return (0, nil) in a row before data flows again
	// (a reader waiting for input that polls).
	EmptyRun   int `json:"empty_run,omitempty"`
	EmptyRunAt int `json:"empty_run_at,omitempty"`
	// Transient: the fault at FaultAt is returned once ((0, err)); later
	// calls deliver the rest of the data as if nothing had happened. A caller
	// that got an error from Read has been told about a failure.
	Transient bool `json:"fault_is_transient,omitempty"`
}

// FaultError returns the error value a reader under c injects.
func (c Chunking) FaultError() error {
	switch c.FaultErr {
	case "unexpected-eof":
		return io.ErrUnexpectedEOF
	case "closed-pipe":
		return io.ErrClosedPipe
	case "eintr":
		return syscall.EINTR
	case "wrapped-eintr":
		return fmt.Errorf("read /dev/ttyUSB0: %w", syscall.EINTR)
	case "eagain":
		return syscall.EAGAIN
	case "timeout":
		return timeoutError{}
	case "deadline":
		return os.ErrDeadlineExceeded
	case "no-progress":
		return io.ErrNoProgress
	case "path-error":
		return &os.PathError{Op: "read", Path: "activity.fit", Err: syscall.EIO}
	case "error-list":
		return errList{errors.New("verif: first problem"), errors.New("verif: second problem")}
	}
	return ErrFault
}

// FaultErrKinds lists the values FaultErr can take besides "": the error
// values real readers fail with (the identity of a reader's error must not
// turn a failure into a success).
var FaultErrKinds = []string{"unexpected-eof", "closed-pipe", "eintr", "wrapped-eintr", "eagain", "timeout", "deadline", "no-progress", "path-error", "error-list"}

// errList is an error whose dynamic type cannot be compared with == (a slice,
// like go/scanner.ErrorList): comparing two such values panics.
type errList []error

func (e errList) Error() string { return fmt.Sprintf("%d errors, first: %v", len(e), e[0]) }

// timeoutError is what a network connection's Read returns on a deadline: an
// error that calls itself temporary.
type timeoutError struct{}

func (timeoutError) Error() string   { return "i/o timeout" }
func (timeoutError) Timeout() bool   { return true }
func (timeoutError) Temporary() bool { return true }

// NoFault returns a chunking without cut or fault.
func NoFault(kind string, size int) Chunking {
	return Chunking{Kind: kind, Size: size, FaultAt: -1, CutAt: -1}
}

func (c Chunking) String() string {
	s := c.Kind
	switch c.Kind {
	case "fixed":
		s += fmt.Sprint(c.Size)
	case "list":
		s += fmt.Sprint(c.Sizes)
	}
	if c.CutAt >= 0 {
		s += fmt.Sprintf(" cut@%d", c.CutAt)
	}
	if c.FaultAt >= 0 {
		s += fmt.Sprintf(" fault@%d", c.FaultAt)
		if c.FaultWithData {
			s += "+data"
		}
		if c.FaultErr != "" {
			s += "(" + c.FaultErr + ")"
		}
	}
	if c.Empty > 1 {
		s += fmt.Sprintf(" empty-read-every-%d", c.Empty)
	}
	if c.EmptyRun > 0 {
		s += fmt.Sprintf(" %d-empty-reads-in-a-row@%d", c.EmptyRun, c.EmptyRunAt)
	}
	if c.Transient {
		s += " transient"
	}
	return s
}

// Reader is a chunking reader over a byte slice that also counts what it
// handed out. It is the only thing between the library and the bytes, so
// Delivered is exactly what the library consumed.
type Reader struct {
	data      []byte
	pos       int
	c         Chunking
	call      int
	Delivered int
	Calls     int
	faulted   bool
	emptyDone int
	// MaxReq is the largest buffer the library offered.
	MaxReq int
}

// NewReader builds a reader for data under chunking c.
func NewReader(data []byte, c Chunking) *Reader {
	if c.CutAt >= 0 && c.CutAt < len(data) {
		data = data[:c.CutAt]
	}
	return &Reader{data: data, c: c}
}

func (r *Reader) Read(p []byte) (int, error) {
	r.Calls++
	if len(p) > r.MaxReq {
		r.MaxReq = len(p)
	}
	if len(p) == 0 {
		return 0, nil
	}
	if r.c.Empty > 1 && r.Calls%r.c.Empty == 0 {
		return 0, nil
	}
	if r.c.EmptyRun > 0 && r.pos >= r.c.EmptyRunAt && r.emptyDone < r.c.EmptyRun {
		r.emptyDone++
		return 0, nil
	}
	if r.c.FaultAt >= 0 && r.pos >= r.c.FaultAt && !(r.c.Transient && r.faulted) {
		r.faulted = true
		return 0, r.c.FaultError()
	}
	if r.pos >= len(r.data) {
		return 0, io.EOF
	}
	n := len(p)
	switch r.c.Kind {
	case "one":
		n = 1
	case "fixed":
		if r.c.Size > 0 && r.c.Size < n {
			n = r.c.Size
		}
	case "list":
		if len(r.c.Sizes) > 0 {
			k := r.c.Sizes[r.call%len(r.c.Sizes)]
			r.call++
			if k > 0 && k < n {
				n = k
			}
		}
	}
	if rem := len(r.data) - r.pos; n > rem {
		n = rem
	}
	limit := -1
	if r.c.FaultAt >= 0 && !(r.c.Transient && r.faulted) {
		limit = r.c.FaultAt - r.pos
		if n > limit {
			n = limit
		}
	}
	if r.c.EmptyRun > 0 && r.emptyDone < r.c.EmptyRun && r.pos < r.c.EmptyRunAt && n > r.c.EmptyRunAt-r.pos {
		n = r.c.EmptyRunAt - r.pos
	}
	copy(p, r.data[r.pos:r.pos+n])
	r.pos += n
	r.Delivered += n
	if r.c.FaultAt >= 0 && r.pos >= r.c.FaultAt && r.c.FaultWithData && !(r.c.Transient && r.faulted) {
		r.faulted = true
		return n, r.c.FaultError()
	}
	if r.c.Kind == "dataeof" && r.pos >= len(r.data) {
		return n, io.EOF
	}
	return n, nil
}

// Faulted reports whether the injected fault was returned to the caller.
func (r *Reader) Faulted() bool { return r.faulted }

// DrawChunking draws a chunking without faults.
func DrawChunking(d D) Chunking {
	c := drawChunking(d)
	if d.Int(0, 5, "stutter") == 0 {
		c.Empty = []int{2, 3, 5, 17}[d.Int(0, 3, "every")]
	}
	if d.Int(0, 7, "emptyrun") == 0 {
		// a long pause: hundreds of empty reads in a row somewhere in the input
		c.EmptyRun = []int{99, 100, 101, 150, 400}[d.Int(0, 4, "emptyrunlen")]
		c.EmptyRunAt = d.Int(0, 300, "emptyrunat")
	}
	return c
}

func drawChunking(d D) Chunking {
	switch d.Int(0, 6, "chunk") {
	case 0:
		return NoFault("whole", 0)
	case 1:
		return NoFault("one", 0)
	case 2:
		return NoFault("fixed", []int{2, 3, 5, 7, 13, 63, 255, 4095, 4097, 5000}[d.Int(0, 9, "csz")])
	case 3:
		c := NoFault("list", 0)
		n := d.Int(1, 6, "nsz")
		for i := 0; i < n; i++ {
			c.Sizes = append(c.Sizes, d.Int(1, 40, "sz"))
		}
		return c
	case 4:
		return NoFault("dataeof", 0)
	case 5:
		c := NoFault("list", 0)
		c.Sizes = []int{1, 4096, 1, 1, 7}
		return c
	default:
		return NoFault("fixed", d.Int(1, 300, "csz2"))
	}
}

// StandardChunkings is a fixed list used by enumerations.
func StandardChunkings() []Chunking {
	l := NoFault("list", 0)
	l.Sizes = []int{1, 2, 3, 5, 1, 11}
	st := NoFault("fixed", 5)
	st.Empty = 2
	pause := NoFault("fixed", 9)
	pause.EmptyRun, pause.EmptyRunAt = 250, 33
	return []Chunking{NoFault("whole", 0), NoFault("one", 0), NoFault("fixed", 3), NoFault("fixed", 7), l, NoFault("dataeof", 0), st, pause}
}
