//go:build verif

package gen

import (
	"bufio"
	"bytes"
	"fmt"
	"io"
	"os"
	"strings"
)

// WriterKind receives what the library writes through one of the concrete
// writer types programs really use and returns the bytes that arrived.
type WriterKind struct {
	Name string
	// Open returns the writer to hand to the library and a function that
	// finishes the transfer (flush, close, read back) and returns the bytes.
	Open func() (w io.Writer, collect func() ([]byte, error), err error)
}

// plainWriter has Write and nothing else.
type plainWriter struct{ b []byte }

func (p *plainWriter) Write(x []byte) (int, error) { p.b = append(p.b, x...); return len(x), nil }

// writerFunc is a writer whose dynamic type is a func type.
type writerFunc func([]byte) (int, error)

func (f writerFunc) Write(p []byte) (int, error) { return f(p) }

// structWriter is a writer passed by value whose type holds a slice and a map
// (not comparable, not hashable).
type structWriter struct {
	parts [][]byte
	seen  map[int]bool
	out   *[]byte
}

func (w structWriter) Write(p []byte) (int, error) {
	w.seen[len(p)] = true
	*w.out = append(*w.out, p...)
	return len(p), nil
}

// WriterKinds lists the writer kinds. dir is where temporary files go.
func WriterKinds(dir string) []WriterKind {
	return []WriterKind{
		{"plain io.Writer", func() (io.Writer, func() ([]byte, error), error) {
			p := &plainWriter{}
			return p, func() ([]byte, error) { return p.b, nil }, nil
		}},
		{"regular *os.File", func() (io.Writer, func() ([]byte, error), error) {
			f, err := os.CreateTemp(dir, "writerkind-*.bin")
			if err != nil {
				return nil, nil, err
			}
			return f, func() ([]byte, error) {
				defer os.Remove(f.Name())
				if err := f.Close(); err != nil {
					return nil, err
				}
				return os.ReadFile(f.Name())
			}, nil
		}},
		{"write end of an os.Pipe", func() (io.Writer, func() ([]byte, error), error) {
			pr, pw, err := os.Pipe()
			if err != nil {
				return nil, nil, err
			}
			var got bytes.Buffer
			done := make(chan error, 1)
			go func() { _, e := io.Copy(&got, pr); pr.Close(); done <- e }()
			return pw, func() ([]byte, error) {
				pw.Close()
				err := <-done
				return got.Bytes(), err
			}, nil
		}},
		{"*bufio.Writer (flushed by the caller)", func() (io.Writer, func() ([]byte, error), error) {
			var got bytes.Buffer
			bw := bufio.NewWriterSize(&got, 64)
			return bw, func() ([]byte, error) { err := bw.Flush(); return got.Bytes(), err }, nil
		}},
		{"*bytes.Buffer that already holds bytes", func() (io.Writer, func() ([]byte, error), error) {
			b := bytes.NewBuffer(append(make([]byte, 0, 256), prelude...))
			return b, func() ([]byte, error) {
				if !bytes.HasPrefix(b.Bytes(), prelude) {
					return nil, io.ErrShortWrite
				}
				return b.Bytes()[len(prelude):], nil
			}, nil
		}},
		{"*os.File positioned after existing bytes", func() (io.Writer, func() ([]byte, error), error) {
			f, err := os.CreateTemp(dir, "writerkind-*.bin")
			if err != nil {
				return nil, nil, err
			}
			if _, err := f.Write(prelude); err != nil {
				f.Close()
				os.Remove(f.Name())
				return nil, nil, err
			}
			return f, func() ([]byte, error) {
				defer os.Remove(f.Name())
				if err := f.Close(); err != nil {
					return nil, err
				}
				all, err := os.ReadFile(f.Name())
				if err != nil || !bytes.HasPrefix(all, prelude) {
					return nil, io.ErrShortWrite
				}
				return all[len(prelude):], nil
			}, nil
		}},
		{"writer of a func type (its dynamic type cannot be hashed or compared)", func() (io.Writer, func() ([]byte, error), error) {
			var got []byte
			return writerFunc(func(p []byte) (int, error) { got = append(got, p...); return len(p), nil }), func() ([]byte, error) { return got, nil }, nil
		}},
		{"writer that is a struct value holding a slice and a map", func() (io.Writer, func() ([]byte, error), error) {
			w := structWriter{parts: [][]byte{nil}, seen: map[int]bool{}, out: new([]byte)}
			return w, func() ([]byte, error) { return *w.out, nil }, nil
		}},
		{"*strings.Builder", func() (io.Writer, func() ([]byte, error), error) {
			var sb strings.Builder
			return &sb, func() ([]byte, error) { return []byte(sb.String()), nil }, nil
		}},
		{"io.MultiWriter over two buffers", func() (io.Writer, func() ([]byte, error), error) {
			var a, b bytes.Buffer
			return io.MultiWriter(&a, &b), func() ([]byte, error) {
				if !bytes.Equal(a.Bytes(), b.Bytes()) {
					return nil, io.ErrShortWrite
				}
				return a.Bytes(), nil
			}, nil
		}},
	}
}

// CheckWriterKind runs enc (which must write the same thing as produced want)
// into the writer kind selected by sel and compares what arrived with want.
// It returns "" if they agree, else a description.
func CheckWriterKind(dir string, sel int, want []byte, enc func(w io.Writer) error) string {
	kinds := WriterKinds(dir)
	k := kinds[((sel%len(kinds))+len(kinds))%len(kinds)]
	w, collect, err := k.Open()
	if err != nil {
		return "" // cannot set the writer up here: nothing to judge
	}
	var eerr error
	var pv any
	func() {
		defer func() { pv = recover() }()
		eerr = enc(w)
	}()
	if pv != nil {
		return "writing into a " + k.Name + " panics although writing into a bytes.Buffer succeeds: " + fmt.Sprint(pv)
	}
	got, cerr := collect()
	switch {
	case eerr != nil:
		return "writing into a " + k.Name + " fails although writing into a bytes.Buffer succeeds: " + eerr.Error()
	case cerr != nil:
		return "collecting from a " + k.Name + ": " + cerr.Error()
	case !bytes.Equal(got, want):
		i := 0
		for i < len(got) && i < len(want) && got[i] == want[i] {
			i++
		}
		return "a " + k.Name + " received other bytes than a bytes.Buffer (" + itoa(len(got)) + " vs " + itoa(len(want)) + " bytes, first difference at offset " + itoa(i) + ")"
	}
	return ""
}

func itoa(n int) string {
	if n == 0 {
		return "0"
	}
	s := ""
	neg := n < 0
	if neg {
		n = -n
	}
	for n > 0 {
		s = string(rune('0'+n%10)) + s
		n /= 10
	}
	if neg {
		s = "-" + s
	}
	return s
}
