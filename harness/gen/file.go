//go:build verif

package gen

import (
	"fmt"
	"reflect"
	"sort"
	"time"
	"unicode/utf8"

	"github.com/tormoder/fit"

	"verif/fitmodel"
	"verif/prof"
)

// MsgSpec is a message given as the set of fields that are set (by Go field
// name); every other field keeps the constructor's invalid value.
type MsgSpec struct {
	Global uint16                  `json:"global"`
	Fields map[string]fitmodel.Val `json:"fields"`
}

// SlotSpec is the content of one container (or File-level) slot.
type SlotSpec struct {
	Name   string    `json:"slot"`
	InFile bool      `json:"in_file"`
	Msgs   []MsgSpec `json:"msgs"`
}

// FileSpec describes a File to be built through the public API.
type FileSpec struct {
	Type      int        `json:"type"`
	HdrCRC    bool       `json:"header_crc"`
	Proto     byte       `json:"proto"`
	BigEndian bool       `json:"big_endian"`
	FileId    MsgSpec    `json:"file_id"`
	Slots     []SlotSpec `json:"slots"`
	// Prelude names an Encode call that fails and is made just before the
	// File is encoded ("" none, "badstring": the same File with a string that
	// is not UTF-8, "failwriter": the same File into a writer that refuses
	// data after a few bytes). BuildFile ignores it.
	Prelude string `json:"failing_encode_before,omitempty"`
	// Stale: the File carries header CRC, data size and file CRC values of
	// an earlier life (as a File returned by Decode, or encoded before and
	// edited since, does); Encode documents that it updates them.
	Stale bool `json:"stale_header_values,omitempty"`
	// ProfileVer != 0: the File's header carries this profile version (a
	// File decoded from a device file carries the device's, not the library's)
	ProfileVer uint16 `json:"profile_version,omitempty"`
	// Aliased: the array fields of the File are overlapping views of one
	// buffer per element type (prof.AliasArrays), as in a program that cuts a
	// sample buffer into per-message pieces. BuildFile ignores it; the checks
	// that encode apply it.
	Aliased bool `json:"aliased_arrays,omitempty"`
	// SubSecond: the File's times carry a fractional part (cut off on the
	// wire); ZonedUTC: its date_time fields are shown in zones other than UTC
	// (same instants). prof.TweakTimes; BuildFile ignores both, the checks
	// that encode apply them (sub-second values are outside C06's domain).
	SubSecond bool `json:"times_with_fraction,omitempty"`
	ZonedUTC  bool `json:"utc_fields_in_zones,omitempty"`
	// SameTime: in messages with a date_time and a local_date_time field
	// both hold the identical zoned time.Time value (prof.SameTimes)
	SameTime bool `json:"utc_and_local_field_hold_one_value,omitempty"`
}

// FileOpts steers GenFile.
type FileOpts struct {
	FileType  int  // -1: draw
	MaxMsgs   int  // per slice slot
	LongSlots bool // occasionally fill one slice slot with 256..600 nearly empty messages
	FieldPct  int  // chance that a field is set
	OutDomain bool // also draw values outside C06's domain (over-long strings/arrays, invalid UTF-8 ...) — for C05/C07 style checks
	Filter    func(g uint16, fi *fitmodel.FieldInfo) bool
}

// DefaultFileOpts draws in-domain files.
func DefaultFileOpts() FileOpts {
	return FileOpts{FileType: -1, MaxMsgs: 4, FieldPct: 25, LongSlots: true}
}

func drawScalarBits(d D, bt fitmodel.BaseType) uint64 {
	n := uint(bt.Size * 8)
	mask := uint64(1)<<n - 1
	if n == 64 {
		mask = ^uint64(0)
	}
	var v uint64
	switch d.Int(0, 9, "vpat") {
	case 0:
		v = 0
	case 1:
		v = 1
	case 2:
		v = bt.Invalid - 1
	case 3:
		v = bt.Invalid + 1
	case 4:
		v = uint64(1) << (n - 1)
	case 5:
		v = mask
	case 6:
		v = mask - 1
	default:
		v = fitmodel.WireUint(d.Bytes(bt.Size, "vraw"), false)
	}
	return v & mask
}

// DrawScalar draws a valid (non-invalid) scalar of base type bt.
func DrawScalar(d D, bt fitmodel.BaseType, allowInvalid bool) fitmodel.Val {
	v := drawScalarBits(d, bt)
	if v == bt.Invalid && !allowInvalid {
		v ^= 1
	}
	switch {
	case bt.Float && bt.Size == 4:
		return fitmodel.ScalarFromWire(fitmodel.PutWireUint(v, 4, false), bt, false)
	case bt.Float:
		return fitmodel.ScalarFromWire(fitmodel.PutWireUint(v, 8, false), bt, false)
	case bt.Signed:
		return fitmodel.I(fitmodel.SignExtend(v, bt.Size))
	}
	return fitmodel.U(v)
}

// DrawString draws a valid UTF-8 string without NUL of 1..max bytes.
func DrawString(d D, max int) string {
	if max < 1 {
		return ""
	}
	s := stringPool[d.Int(0, len(stringPool)-1, "sp")]
	for len(s) < max && d.Chance(50, "sx") {
		s += stringPool[d.Int(0, len(stringPool)-1, "sp2")]
	}
	for len(s) > max {
		_, sz := utf8.DecodeLastRuneInString(s)
		s = s[:len(s)-sz]
	}
	if s == "" {
		s = "a"
	}
	return s
}

// DrawFieldVal draws an in-domain value for profile field fi (C06 domain
// clause). ok=false means the field cannot be set in-domain (e.g. a string of
// profile length 1).
func DrawFieldVal(d D, fi *fitmodel.FieldInfo, out bool) (fitmodel.Val, bool) {
	bt := fitmodel.MustBase(fi.Base)
	switch fi.Kind {
	case fitmodel.KindTimeUTC:
		if fi.Array {
			return fitmodel.Val{}, false
		}
		sec := drawTimeSec(d)
		return fitmodel.T(fitmodel.FitEpochUnix+int64(sec), 0), true
	case fitmodel.KindTimeLocal:
		if fi.Array {
			return fitmodel.Val{}, false
		}
		if d.Chance(25, "tzdb") {
			// the instant carried in a tz-database Location, whose offset
			// depends on the instant (daylight saving, rule changes)
			name := tzNames[d.Int(0, len(tzNames)-1, "tzname")]
			inst := int64(drawTimeSec(d))
			if d.Chance(50, "tzsummer") {
				// northern and southern summers of 2009-2024
				inst = int64(0x24000000 + d.Int(0, 0x1C000000, "tzinst"))
			}
			if loc := prof.Location(name); loc != nil {
				_, off := time.Unix(fitmodel.FitEpochUnix+inst, 0).In(loc).Zone()
				if w := inst + int64(off); w >= 0 && w <= 0xFFFFFFFE {
					v := fitmodel.T(fitmodel.FitEpochUnix+inst, off)
					v.S = "tz:" + name
					return v, true
				}
			}
		}
		wall := int64(drawTimeSec(d))
		off := 0
		if d.Chance(80, "tzoff") {
			off = d.Int(-14*3600, 14*3600, "tz")
		}
		inst := wall - int64(off)
		if inst < 0 || inst > 0xFFFFFFFE {
			off = 0
			inst = wall
		}
		v := fitmodel.T(fitmodel.FitEpochUnix+inst, off)
		v.S = "local"
		return v, true
	case fitmodel.KindLat:
		if fi.Array {
			return fitmodel.Val{}, false
		}
		switch d.Int(0, 5, "latp") {
		case 0:
			return fitmodel.C(-(1 << 30)), true
		case 1:
			return fitmodel.C(1<<30 - 1), true
		case 2:
			return fitmodel.C(0), true
		}
		return fitmodel.C(int32(d.Int(-(1 << 30), 1<<30-1, "lat"))), true
	case fitmodel.KindLng:
		if fi.Array {
			return fitmodel.Val{}, false
		}
		switch d.Int(0, 5, "lngp") {
		case 0:
			return fitmodel.C(-(1 << 31)), true
		case 1:
			return fitmodel.C(0x7FFFFFFE), true
		}
		return fitmodel.C(int32(d.Int(-(1 << 31), 0x7FFFFFFE, "lng"))), true
	}
	if bt.String {
		if fi.Array {
			return fitmodel.Val{}, false // the encoder documents it cannot write string arrays
		}
		max := fi.Length - 1
		if out && d.Chance(30, "longstr") {
			max = fi.Length + 10
		}
		if max < 1 {
			return fitmodel.Val{}, false
		}
		return fitmodel.S(DrawString(d, d.Int(1, max, "slen"))), true
	}
	if fi.Array {
		maxk := fi.Length
		if out && d.Chance(30, "longarr") {
			maxk = fi.Length + 3
		}
		k := d.Int(1, maxk, "ak")
		if d.Chance(40, "afull") {
			k = fi.Length
		}
		elems := make([]fitmodel.Val, k)
		for i := range elems {
			elems[i] = DrawScalar(d, bt, true)
		}
		return fitmodel.Arr(elems), true
	}
	return DrawScalar(d, bt, false), true
}

// tzNames are tz-database zones with daylight saving (both hemispheres, a
// 30-minute shift), without it, and with a changed standard offset.
var tzNames = []string{"America/New_York", "Europe/Oslo", "Australia/Lord_Howe", "Pacific/Auckland", "America/Sao_Paulo",
	"Asia/Kolkata", "Europe/Lisbon", "Pacific/Apia", "America/St_Johns", "UTC"}

func drawTimeSec(d D) uint32 {
	switch d.Int(0, 7, "tp") {
	case 0:
		return 1
	case 1:
		return 0xFFFFFFFE
	case 2:
		return 0x10000000
	case 3:
		return 0x0FFFFFFF
	case 4:
		return uint32(d.Int(1, 0x0FFFFFFF, "tsys"))
	}
	return 0x3B9ACA00 + uint32(d.Int(0, 50000000, "tnow"))
}

// DrawMsg draws the set fields of one message of type g.
func DrawMsg(d D, g uint16, o *FileOpts) MsgSpec {
	mi := prof.Table().Msgs[g]
	ms := MsgSpec{Global: g, Fields: map[string]fitmodel.Val{}}
	if mi == nil {
		return ms
	}
	for _, n := range prof.FieldNums(g) {
		fi := mi.Fields[n]
		if fi.Name == "" {
			continue
		}
		if g == 0 && n == 0 {
			continue
		}
		if o.Filter != nil && !o.Filter(g, fi) {
			continue
		}
		pct := o.FieldPct
		if Interesting(g, fi) {
			pct = pct * 2
		}
		if !d.Chance(pct, "set") {
			continue
		}
		if v, ok := DrawFieldVal(d, fi, o.OutDomain); ok {
			ms.Fields[fi.Name] = v
		}
	}
	return ms
}

// GenFile draws a FileSpec.
func GenFile(d D, o FileOpts) *FileSpec {
	ft := o.FileType
	if ft < 0 {
		ft = int(prof.FileTypes[d.Int(0, len(prof.FileTypes)-1, "ftype")])
	}
	fs := &FileSpec{Type: ft, HdrCRC: d.Bool("hcrc"), Proto: 0x20, BigEndian: d.Bool("be"), Stale: d.Int(0, 3, "stale") == 0}
	if d.Int(0, 2, "profver") == 0 {
		fs.ProfileVer = []uint16{100, 1111, 2078, 2140, 65535, uint16(d.Int(1, 65535, "pv"))}[d.Int(0, 5, "pvsel")]
	}
	if d.Chance(25, "v10") {
		fs.Proto = 0x10
	}
	fs.Aliased = d.Int(0, 3, "aliased") == 0
	fs.SubSecond = d.Int(0, 3, "subsecond") == 0
	fs.ZonedUTC = d.Int(0, 3, "zonedutc") == 0
	fs.FileId = DrawMsg(d, 0, &o)
	for _, s := range prof.FileSlots() {
		if s.Name == "FileId" {
			continue
		}
		if d.Chance(35, "fslot") {
			fs.Slots = append(fs.Slots, SlotSpec{Name: s.Name, InFile: true, Msgs: []MsgSpec{DrawMsg(d, s.Msg, &o)}})
		}
	}
	longDone := false
	for _, s := range prof.Slots(fit.FileType(ft)) {
		if !d.Chance(60, "slot") {
			continue
		}
		n := 1
		if s.Multi {
			n = d.Int(1, o.MaxMsgs, "nmsg")
		}
		sp := SlotSpec{Name: s.Name}
		if s.Multi && o.LongSlots && !longDone && d.Int(0, 5, "long") == 0 {
			// a long group: one field set on most messages, and a few
			// messages (block boundaries favoured) carrying a field of
			// their own
			longDone = true
			n = d.Int(256, 600, "nlong")
			mi := prof.Table().Msgs[s.Msg]
			var settable []*fitmodel.FieldInfo
			for _, num := range prof.FieldNums(s.Msg) {
				fi := mi.Fields[num]
				if fi.Name != "" && !fi.Array && fi.Kind == fitmodel.KindNative && !fitmodel.MustBase(fi.Base).String {
					settable = append(settable, fi)
				}
			}
			if len(settable) >= 2 {
				common := settable[d.Int(0, len(settable)-1, "lcommon")]
				special := map[int]*fitmodel.FieldInfo{}
				for k := d.Int(1, 4, "nspecial"); k > 0; k-- {
					pos := []int{255, 256, 511, 512, n - 1, 0, d.Int(0, n-1, "lpos")}[d.Int(0, 6, "lposk")]
					if pos >= 0 && pos < n {
						special[pos] = settable[d.Int(0, len(settable)-1, "lspecial")]
					}
				}
				for i := 0; i < n; i++ {
					ms := MsgSpec{Global: s.Msg, Fields: map[string]fitmodel.Val{}}
					if v, ok := DrawFieldVal(d, common, false); ok && i%3 != 2 {
						ms.Fields[common.Name] = v
					}
					if fi := special[i]; fi != nil {
						if v, ok := DrawFieldVal(d, fi, false); ok {
							ms.Fields[fi.Name] = v
						}
					}
					sp.Msgs = append(sp.Msgs, ms)
				}
				fs.Slots = append(fs.Slots, sp)
				continue
			}
		}
		for i := 0; i < n; i++ {
			sp.Msgs = append(sp.Msgs, DrawMsg(d, s.Msg, &o))
		}
		fs.Slots = append(fs.Slots, sp)
	}
	return fs
}

// BuildMsg constructs a message value (addressable struct) from its spec,
// starting from the all-invalid constructor.
func BuildMsg(ms MsgSpec) (reflect.Value, error) {
	typ := prof.MsgType(ms.Global)
	if typ == nil {
		return reflect.Value{}, fmt.Errorf("no Go type for message %d", ms.Global)
	}
	v := fit.VerifMesgAllInvalid(fit.MesgNum(ms.Global)) // == reflect.ValueOf(NewXMsg()).Elem()
	names := make([]string, 0, len(ms.Fields))
	for n := range ms.Fields {
		names = append(names, n)
	}
	sort.Strings(names)
	for _, n := range names {
		f := v.FieldByName(n)
		if !f.IsValid() {
			return reflect.Value{}, fmt.Errorf("%s has no field %s", typ.Name(), n)
		}
		prof.SetReflect(f, ms.Fields[n])
	}
	return v, nil
}

// BuildFile constructs the File through the public API: NewHeader, NewFile,
// the typed accessor, exported fields, NewXMsg constructors.
func BuildFile(fs *FileSpec) (*fit.File, error) {
	h := fit.NewHeader(fit.ProtocolVersion(fs.Proto), fs.HdrCRC)
	f, err := fit.NewFile(fit.FileType(fs.Type), h)
	if err != nil {
		return nil, err
	}
	idv, err := BuildMsg(fs.FileId)
	if err != nil {
		return nil, err
	}
	id := idv.Interface().(fit.FileIdMsg)
	id.Type = fit.FileType(fs.Type)
	f.FileId = id
	if fs.ProfileVer != 0 {
		f.Header.ProfileVersion = fs.ProfileVer
	}
	if fs.Stale {
		f.Header.CRC = 0x5AA5
		f.Header.DataSize = 0x00C0FFEE
		f.CRC = 0xA55A
	}
	c, err := prof.Container(f)
	if err != nil {
		return nil, err
	}
	cv := reflect.ValueOf(c).Elem()
	fv := reflect.ValueOf(f).Elem()
	for _, sp := range fs.Slots {
		holder := cv
		if sp.InFile {
			holder = fv
		}
		slot := holder.FieldByName(sp.Name)
		if !slot.IsValid() {
			return nil, fmt.Errorf("no slot %s", sp.Name)
		}
		for _, ms := range sp.Msgs {
			mv, err := BuildMsg(ms)
			if err != nil {
				return nil, err
			}
			p := reflect.New(mv.Type())
			p.Elem().Set(mv)
			switch slot.Kind() {
			case reflect.Slice:
				slot.Set(reflect.Append(slot, p))
			case reflect.Ptr:
				slot.Set(p)
			default:
				slot.Set(p.Elem())
			}
		}
	}
	return f, nil
}
