//go:build verif

package gen

import "verif/fitmodel"

// SlideTo returns a copy of s in which filler records (data records of two
// unknown messages) are inserted after the leading file_id definition + data
// so that the record that followed them starts at data-area offset target.
// It is used to slide an internal buffer boundary of the decoder (4096 bytes)
// across every byte position of a small stream. ok=false if target is too
// small. The fillers are unknown messages without field 253: they change
// nothing the model says about the other records.
func SlideTo(s *fitmodel.Stream, target int) (*fitmodel.Stream, bool) {
	if len(s.Recs) < 2 {
		return nil, false
	}
	base := len(s.Recs[0].AppendTo(nil)) + len(s.Recs[1].AppendTo(nil))
	f := target - base
	// fillers: def A (9 bytes, records of 2 bytes), def B (12 bytes, records of 3 bytes)
	if f < 21 {
		return nil, false
	}
	b := 0
	if (f-21)%2 != 0 {
		b = 1
	}
	a := (f - 21 - 3*b) / 2
	if a < 0 {
		return nil, false
	}
	// local types for the fillers: two that the leading file_id does not use
	fid := s.Recs[0].Local & 0x0F
	la, lb := byte(14), byte(15)
	for la == fid || lb == fid || la == lb {
		la = (la + 13) & 0x0F
		lb = (lb + 11) & 0x0F
	}
	out := *s
	out.Recs = make([]fitmodel.Rec, 0, len(s.Recs)+a+b+2)
	out.Recs = append(out.Recs, s.Recs[0], s.Recs[1])
	out.Recs = append(out.Recs,
		fitmodel.Rec{IsDef: true, Local: la, Global: 0xFF10, Fields: []fitmodel.FieldDef{{Num: 1, Size: 1, Base: 2}}},
		fitmodel.Rec{IsDef: true, Local: lb, Global: 0xFF11, Fields: []fitmodel.FieldDef{{Num: 1, Size: 1, Base: 2}, {Num: 2, Size: 1, Base: 2}}},
	)
	for i := 0; i < a; i++ {
		out.Recs = append(out.Recs, fitmodel.Rec{Local: la, Raw: []byte{byte(i)}})
	}
	for i := 0; i < b; i++ {
		out.Recs = append(out.Recs, fitmodel.Rec{Local: lb, Raw: []byte{0xAA, 0xBB}})
	}
	out.Recs = append(out.Recs, s.Recs[2:]...)
	return &out, true
}

// TailLen returns the number of bytes the records after the leading file_id
// definition + data occupy.
func TailLen(s *fitmodel.Stream) int {
	n := 0
	for i := 2; i < len(s.Recs); i++ {
		n += len(s.Recs[i].AppendTo(nil))
	}
	return n
}
