//go:build verif

package gen

import (
	"io"

	"verif/fitmodel"
)

// BigFile streams an activity file of up to a little over 4 GiB without
// holding it in memory: a heart-rate record (100), a long run of unknown
// messages of 65026 bytes each, a few short unknown messages that make the
// data section exactly DataBytes long, and a second heart-rate record (101)
// as the very last record, followed by the file checksum and Extra.
type BigFile struct {
	DataBytes uint64 // length of the data section really present
	Declared  uint32 // data size written into the header
	NBig      int    // number of 65026-byte unknown messages

	// FlipAt != 0: the byte at this stream offset is delivered with bit 4
	// inverted. CutAt != 0: the stream ends (io.EOF) at this offset.
	FlipAt, CutAt uint64

	head, filler, rest []byte
	phase, i, off      int
	Delivered          uint64
}

const bigRecLen = 1 + 255*255

// NewBigFile lays the file out. dataBytes must be at least 200000.
func NewBigFile(dataBytes uint64, declared uint32, extra []byte, hdr14 ...bool) *BigFile {
	g := &BigFile{DataBytes: dataBytes, Declared: declared}
	big := fitmodel.Rec{IsDef: true, Local: 2, Global: 0xFF50}
	for i := 0; i < 255; i++ {
		num := byte(i)
		if num == 253 {
			num = 254
		}
		big.Fields = append(big.Fields, fitmodel.FieldDef{Num: num, Size: 255, Base: 0x0D})
	}
	pre := []fitmodel.Rec{
		{IsDef: true, Global: 0, Fields: []fitmodel.FieldDef{{Num: 0, Size: 1, Base: 0}}}, {Raw: []byte{4}},
		{IsDef: true, Local: 1, Global: 20, Fields: []fitmodel.FieldDef{{Num: 3, Size: 1, Base: 2}}},
		{Local: 1, Raw: []byte{100}},
		big,
		{IsDef: true, Local: 3, Global: 0xFF51, Fields: []fitmodel.FieldDef{{Num: 1, Size: 2, Base: 0x0D}}},
		{IsDef: true, Local: 4, Global: 0xFF52, Fields: []fitmodel.FieldDef{{Num: 1, Size: 1, Base: 0x0D}}},
	}
	var body []byte
	for i := range pre {
		body = pre[i].AppendTo(body)
	}
	tail := (&fitmodel.Rec{Local: 1, Raw: []byte{101}}).AppendTo(nil)
	room := dataBytes - uint64(len(body)) - uint64(len(tail))
	g.NBig = int(room / bigRecLen)
	rem := int(room % bigRecLen)
	if rem < 2 && rem != 0 {
		g.NBig--
		rem += bigRecLen
	}
	// rem = 3a + 2b
	a, b := 0, 0
	if rem%2 == 1 {
		a, rem = 1, rem-3
	}
	b = rem / 2
	for i := 0; i < a; i++ {
		g.rest = append(g.rest, 3, 0xAA, 0xBB)
	}
	for i := 0; i < b; i++ {
		g.rest = append(g.rest, 4, byte(i))
	}
	g.rest = append(g.rest, tail...)
	hs := byte(12)
	if len(hdr14) > 0 && hdr14[0] {
		hs = 14
	}
	g.head = append((&fitmodel.Stream{HeaderSize: hs, Proto: 0x20}).Header(int(declared)), body...)
	g.filler = make([]byte, bigRecLen)
	g.filler[0] = 2 // record header: local type 2
	for i := 1; i < len(g.filler); i++ {
		g.filler[i] = byte(i * 31)
	}
	// checksum over header and data: the state after one filler block is an
	// affine function of the state before it
	crc := fitmodel.CRC(g.head)
	feed := func(s uint16, p []byte) uint16 {
		for _, x := range p {
			s = fitmodel.CRCStep(s, x)
		}
		return s
	}
	c0 := feed(0, g.filler)
	var lin [16]uint16
	for k := range lin {
		lin[k] = feed(1<<uint(k), g.filler) ^ c0
	}
	for i := 0; i < g.NBig; i++ {
		n := c0
		for k := 0; k < 16; k++ {
			if crc&(1<<uint(k)) != 0 {
				n ^= lin[k]
			}
		}
		crc = n
	}
	crc = feed(crc, g.rest)
	g.rest = append(g.rest, byte(crc), byte(crc>>8))
	g.rest = append(g.rest, extra...)
	return g
}

func (g *BigFile) Read(p []byte) (int, error) {
	for {
		var src []byte
		switch g.phase {
		case 0:
			src = g.head
		case 1:
			if g.i >= g.NBig {
				g.phase, g.off = 2, 0
				continue
			}
			src = g.filler
		case 2:
			src = g.rest
		default:
			return 0, io.EOF
		}
		if g.off >= len(src) {
			g.off = 0
			if g.phase == 1 {
				g.i++
			} else {
				g.phase++
			}
			continue
		}
		if g.CutAt != 0 && g.Delivered >= g.CutAt {
			return 0, io.EOF
		}
		n := copy(p, src[g.off:])
		if g.CutAt != 0 && g.Delivered+uint64(n) > g.CutAt {
			n = int(g.CutAt - g.Delivered)
		}
		if g.FlipAt != 0 && g.FlipAt >= g.Delivered && g.FlipAt < g.Delivered+uint64(n) {
			p[g.FlipAt-g.Delivered] ^= 0x10
		}
		g.off += n
		g.Delivered += uint64(n)
		return n, nil
	}
}

// BigResult is what Decode made of a BigFile.
type BigResult struct {
	Panic     any
	Err       error
	Records   []byte // heart rates of the record messages in the File
	Total     uint64 // bytes in the stream
	Delivered uint64 // bytes Decode read
}

// Total is the length of the whole stream.
func (g *BigFile) Total() uint64 {
	return uint64(len(g.head)) + uint64(g.NBig)*bigRecLen + uint64(len(g.rest))
}

// DecodeBig decodes g with decode (fit.Decode, passed in to keep this
// package free of the call) and collects the outcome.
func DecodeBig(g *BigFile, decode func(io.Reader) (hr []byte, err error)) (res BigResult) {
	res.Total = uint64(len(g.head)) + uint64(g.NBig)*bigRecLen + uint64(len(g.rest))
	func() {
		defer func() {
			if p := recover(); p != nil {
				res.Panic = p
			}
		}()
		res.Records, res.Err = decode(g)
	}()
	res.Delivered = g.Delivered
	return res
}
