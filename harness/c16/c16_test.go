//go:build verif

package c16

import (
	"bytes"
	"encoding/hex"
	"encoding/json"
	"fmt"
	"sort"
	"strings"
	"sync"
	"testing"

	"github.com/tormoder/fit"
	"pgregory.net/rapid"

	"verif/fitmodel"
	"verif/gen"
	"verif/hx"
	"verif/oracle"
	"verif/prof"
)

// anyCase is an arbitrary input with a chunking (sub-check options-on-any-input).
type anyCase struct {
	Data  string       `json:"data_hex"`
	Chunk gen.Chunking `json:"chunking"`
}

type optCase struct {
	FileType int              `json:"file_type"`
	Stream   *fitmodel.Stream `json:"stream"`
	Chunk    gen.Chunking     `json:"chunking"`
	BadCRC   bool             `json:"bad_crc"`
	// BadHdrCRC: the stream gets a 14-byte header whose stored CRC is wrong
	// (non-zero), the file CRC being consistent with the bytes as they are
	BadHdrCRC bool   `json:"bad_header_crc,omitempty"`
	Text      string `json:"text"`
}

// captureLogger records whether anything was logged.
type captureLogger struct {
	mu sync.Mutex
	n  int
}

func (l *captureLogger) Print(a ...interface{})            { l.add() }
func (l *captureLogger) Printf(f string, a ...interface{}) { l.add() }
func (l *captureLogger) Println(a ...interface{})          { l.add() }
func (l *captureLogger) add()                              { l.mu.Lock(); l.n++; l.mu.Unlock() }

type runResult struct {
	digest   string
	errText  string
	consumed int
	um       []fit.UnknownMessage
	uf       []fit.UnknownField
	umNil    bool
	ufNil    bool
	logged   int
	nilFile  bool
}

func runWith(data []byte, ch gen.Chunking, set int) (res runResult, p any) {
	p = oracle.Catch(func() {
		var opts []fit.DecodeOption
		var lg *captureLogger
		// the options of a set are passed in an order that depends on the
		// input (all six orders occur), and on some inputs the first one is
		// passed a second time at the end: a set is a set
		order := [][3]int{{1, 2, 4}, {1, 4, 2}, {2, 1, 4}, {2, 4, 1}, {4, 1, 2}, {4, 2, 1}}[(len(data)+set)%6]
		for _, bit := range order {
			if set&bit == 0 {
				continue
			}
			switch bit {
			case 1:
				if lg == nil {
					lg = &captureLogger{}
				}
				opts = append(opts, fit.WithLogger(lg))
			case 2:
				opts = append(opts, fit.WithUnknownFields())
			case 4:
				opts = append(opts, fit.WithUnknownMessages())
			}
		}
		if len(opts) > 1 && (len(data)/6+set)%4 == 3 {
			opts = append(opts, opts[0])
		}
		r := gen.NewReader(data, ch)
		f, err := fit.Decode(r, opts...)
		res.consumed = r.Delivered
		if err != nil {
			res.errText = err.Error()
		}
		if f == nil {
			res.nilFile = true
			return
		}
		res.digest = prof.Digest(f, prof.DigestOpts{NoUnknown: true, Skip: func(msg, field string) bool {
			return hx.Open("K1") && msg == "RecordMsg" && field == "Distance"
		}})
		res.um, res.uf = f.UnknownMessages, f.UnknownFields
		res.umNil, res.ufNil = f.UnknownMessages == nil, f.UnknownFields == nil
		if lg != nil {
			res.logged = lg.n
		}
	})
	return
}

// model tallies for the records up to (and excluding) limit; inProgress is
// the record at index limit, if it exists and is a data record (its header
// byte may already have been counted when the failure struck).
func tallies(s *fitmodel.Stream, limit int) (um map[uint16]int, uf map[[2]uint16]int) {
	ps := *s
	if limit < len(s.Recs) {
		ps.Recs = s.Recs[:limit]
	}
	ip := fitmodel.Interpret(&ps, prof.Table())
	return ip.UnknownMsgs, ip.UnknownFields
}

func check(rec *hx.Recorder, c optCase, labels map[string]int) (string, bool) {
	if c.BadHdrCRC {
		cs := *c.Stream
		cs.HeaderSize = 14
		c.Stream = &cs
	}
	lay := c.Stream.Layout()
	data := append([]byte(nil), lay.Bytes...)
	if c.BadCRC {
		data[len(data)-1] ^= 0x40
	}
	if c.BadHdrCRC {
		data[12] ^= 0x21
		if data[12] == 0 && data[13] == 0 {
			data[13] = 1
		}
		fc := fitmodel.CRC(data[:len(data)-2])
		data[len(data)-2], data[len(data)-1] = byte(fc), byte(fc>>8)
	}
	ip := fitmodel.Interpret(c.Stream, prof.Table())
	// how many records complete before the failure (if any)
	completed := len(c.Stream.Recs)
	failing := false
	switch {
	case ip.FailRec >= 0:
		completed = ip.FailRec
		failing = true
		labels["fails: undefined local type"]++
	case c.Chunk.CutAt >= 0 && c.Chunk.CutAt < len(data):
		completed = 0
		for i := range lay.RecEnd {
			if lay.RecEnd[i] <= c.Chunk.CutAt {
				completed = i + 1
			}
		}
		failing = true
		labels["fails: truncated"]++
	case c.BadCRC:
		failing = true
		labels["fails: bad crc"]++
	case c.BadHdrCRC:
		failing = true
		completed = 0
		labels["fails: bad header crc, file crc consistent"]++
	}

	var results [8]runResult
	for set := 0; set < 8; set++ {
		r, p := runWith(data, c.Chunk, set)
		if p != nil {
			return fmt.Sprintf("Decode panicked with option set %03b: %v\nstream: %s", set, p, c.Text), false
		}
		results[set] = r
	}
	base := results[0]
	if failing && base.errText == "" {
		return fmt.Sprintf("HARNESS/decoder: expected a failing decode (%v) but Decode succeeded\nstream: %s", labels, c.Text), false
	}
	if !failing && base.errText != "" {
		return fmt.Sprintf("Decode failed on a well-formed stream: %s\nstream: %s", base.errText, c.Text), false
	}
	for set := 1; set < 8; set++ {
		r := results[set]
		if r.nilFile != base.nilFile || r.digest != base.digest {
			return fmt.Sprintf("option set %03b (logger|unknownFields|unknownMessages) changed the decoded messages\nwithout:\n%s\nwith:\n%s\nstream: %s", set, base.digest, r.digest, c.Text), false
		}
		if r.errText != base.errText {
			return fmt.Sprintf("option set %03b changed the error: %q vs %q\nstream: %s", set, r.errText, base.errText, c.Text), false
		}
		if r.consumed != base.consumed {
			return fmt.Sprintf("option set %03b changed the bytes consumed: %d vs %d\nstream: %s", set, r.consumed, base.consumed, c.Text), false
		}
	}
	var umLo, umHi map[uint16]int
	var ufLo, ufHi map[[2]uint16]int
	haveTallies := false
	for set := 0; set < 8; set++ {
		r := results[set]
		if r.nilFile {
			continue
		}
		if set&1 == 0 && r.logged != 0 {
			return "logger output without a logger", false
		}
		if set&1 != 0 && r.logged == 0 {
			// header decoded message is always logged once the header was read
			return fmt.Sprintf("a logger was set but nothing was logged\nstream: %s", c.Text), false
		}
		// lists present only when requested
		if set&2 == 0 && !r.ufNil {
			return fmt.Sprintf("UnknownFields is non-nil (%v) although WithUnknownFields was not given (option set %03b)", r.uf, set), false
		}
		if set&4 == 0 && !r.umNil {
			return fmt.Sprintf("UnknownMessages is non-nil (%v) although WithUnknownMessages was not given (option set %03b)", r.um, set), false
		}
		// counts
		if !haveTallies {
			umLo, ufLo = tallies(c.Stream, completed)
			umHi, ufHi = umLo, ufLo
			if failing && completed < len(c.Stream.Recs) {
				umHi, ufHi = tallies(c.Stream, completed+1)
			}
			haveTallies = true
		}
		headerRead := base.consumed >= int(data[0])
		if set&4 != 0 && headerRead && fileIDParsed(base) {
			if r.umNil {
				return fmt.Sprintf("UnknownMessages is nil although requested (err=%q)\nstream: %s", r.errText, c.Text), false
			}
			if !sort.SliceIsSorted(r.um, func(i, j int) bool { return r.um[i].MesgNum < r.um[j].MesgNum }) {
				return fmt.Sprintf("UnknownMessages not sorted: %v", r.um), false
			}
			got := map[uint16]int{}
			for i, u := range r.um {
				if i > 0 && r.um[i-1].MesgNum == u.MesgNum {
					return fmt.Sprintf("UnknownMessages lists message %d twice: %v", u.MesgNum, r.um), false
				}
				got[uint16(u.MesgNum)] = u.Count
			}
			if msg := between("unknown-message", got, umLo, umHi); msg != "" {
				return msg + "\nstream: " + c.Text, false
			}
		}
		if set&2 != 0 && headerRead && fileIDParsed(base) {
			if r.ufNil {
				return fmt.Sprintf("UnknownFields is nil although requested (err=%q)\nstream: %s", r.errText, c.Text), false
			}
			less := func(i, j int) bool {
				if r.uf[i].MesgNum != r.uf[j].MesgNum {
					return r.uf[i].MesgNum < r.uf[j].MesgNum
				}
				return r.uf[i].FieldNum < r.uf[j].FieldNum
			}
			if !sort.SliceIsSorted(r.uf, less) {
				return fmt.Sprintf("UnknownFields not sorted: %v", r.uf), false
			}
			got := map[[2]uint16]int{}
			for _, u := range r.uf {
				k := [2]uint16{uint16(u.MesgNum), uint16(u.FieldNum)}
				if _, dup := got[k]; dup {
					return fmt.Sprintf("UnknownFields lists (%d,%d) twice", u.MesgNum, u.FieldNum), false
				}
				got[k] = u.Count
			}
			if msg := between2("unknown-field", got, ufLo, ufHi); msg != "" {
				return msg + "\nstream: " + c.Text, false
			}
		}
	}
	// the same options given to DecodeChained hold for every file of the chain
	if !failing && c.Chunk.CutAt < 0 && c.Chunk.FaultAt < 0 {
		chain := append(append([]byte(nil), data...), data...)
		for _, set := range []int{6, 7} {
			var fs []*fit.File
			var err error
			lg := &captureLogger{}
			opts := []fit.DecodeOption{fit.WithUnknownFields(), fit.WithUnknownMessages()}
			if len(data)%2 == 1 {
				opts[0], opts[1] = opts[1], opts[0]
			}
			if set&1 != 0 {
				opts = append(opts, fit.WithLogger(lg))
			}
			if p := oracle.Catch(func() { fs, err = fit.DecodeChained(gen.NewReader(chain, c.Chunk), opts...) }); p != nil {
				return fmt.Sprintf("DecodeChained panicked with option set %03b: %v\nstream: %s", set, p, c.Text), false
			}
			if err != nil || len(fs) != 2 {
				return fmt.Sprintf("DecodeChained with option set %03b on the stream twice: %d files, err=%v\nstream: %s", set, len(fs), err, c.Text), false
			}
			want := results[set]
			for i, f := range fs {
				if fmt.Sprint(f.UnknownFields) != fmt.Sprint(want.uf) || fmt.Sprint(f.UnknownMessages) != fmt.Sprint(want.um) ||
					(f.UnknownFields == nil) != want.ufNil || (f.UnknownMessages == nil) != want.umNil {
					return fmt.Sprintf("DecodeChained with option set %03b: file %d of 2 reports unknown fields %v / messages %v, Decode of the same bytes with the same options reports %v / %v\nstream: %s",
						set, i+1, f.UnknownFields, f.UnknownMessages, want.uf, want.um, c.Text), false
				}
			}
			if set&1 != 0 && lg.n < 2*want.logged {
				return fmt.Sprintf("DecodeChained with a logger over two copies logged %d times, Decode of one copy logs %d times\nstream: %s", lg.n, want.logged, c.Text), false
			}
			labels["chained with options"]++
		}
	}
	if len(ip.UnknownMsgs) > 0 {
		labels["has unknown message"]++
	}
	if len(ip.UnknownFields) > 0 {
		labels["has unknown field of a known message"]++
	}
	return "", true
}

// fileIDParsed: the unknown lists are set up after the header and before the
// file_id message is parsed; a digest with a file type line means the File
// object exists. The lists are created once the header is decoded.
func fileIDParsed(r runResult) bool { return !r.nilFile }

func between(what string, got, lo, hi map[uint16]int) string {
	keys := map[uint16]bool{}
	for k := range got {
		keys[k] = true
	}
	for k := range hi {
		keys[k] = true
	}
	for k := range keys {
		if got[k] < lo[k] || got[k] > hi[k] {
			return fmt.Sprintf("%s count for %d is %d, the stream has %d complete record(s) of it before the failure point (at most %d counting the one in progress); reported %v", what, k, got[k], lo[k], hi[k], got)
		}
	}
	return ""
}

func between2(what string, got, lo, hi map[[2]uint16]int) string {
	keys := map[[2]uint16]bool{}
	for k := range got {
		keys[k] = true
	}
	for k := range hi {
		keys[k] = true
	}
	for k := range keys {
		if got[k] < lo[k] || got[k] > hi[k] {
			return fmt.Sprintf("%s count for (message %d, field %d) is %d, the stream has %d complete record(s) of a known message carrying it (at most %d counting the one in progress); reported %v", what, k[0], k[1], got[k], lo[k], hi[k], got)
		}
	}
	return ""
}

func TestC16(t *testing.T) {
	hx.Main(t, "C16", func(rec *hx.Recorder) {
		if rp, ok := hx.LoadReplay(); ok && rp.Sub == "options-on-any-input" {
			var c anyCase
			json.Unmarshal(rp.Case, &c)
			data, _ := hex.DecodeString(strings.ReplaceAll(c.Data, " ", ""))
			rec.Eval("replay", 8)
			base, _ := runWith(data, c.Chunk, 0)
			for set := 1; set < 8; set++ {
				r, p := runWith(data, c.Chunk, set)
				if p != nil || r.nilFile != base.nilFile || r.digest != base.digest || r.errText != base.errText || r.consumed != base.consumed {
					rec.Fail(rp.Sub, "", fmt.Sprintf("option set %03b changes the outcome (panic=%v err %q vs %q)", set, p, r.errText, base.errText), c)
					return
				}
			}
			return
		}
		if rp, ok := hx.LoadReplay(); ok {
			var c optCase
			if err := json.Unmarshal(rp.Case, &c); err != nil {
				t.Fatal(err)
			}
			c.Text = c.Stream.String()
			rec.Eval("replay", 1)
			if msg, ok := check(rec, c, map[string]int{}); !ok {
				rec.Fail(rp.Sub, "", msg, c)
			}
			return
		}
		// every message number: two records of message g carrying field 250,
		// for every g from 1 to 65534 (65535 is the invalid number), decoded with both unknown options: g
		// is tallied as an unknown message exactly if the profile does not
		// know it, otherwise its field 250 as an unknown field (first shard)
		if hx.FirstShard() {
			ng, failed := int64(0), 0
			for g := 1; g <= 0xFFFE && failed < 3; g++ {
				st := &fitmodel.Stream{HeaderSize: 12, Proto: 0x20, Recs: []fitmodel.Rec{
					{IsDef: true, Global: 0, Fields: []fitmodel.FieldDef{{Num: 0, Size: 1, Base: 0}}}, {Raw: []byte{4}},
					{IsDef: true, Local: 1, Global: uint16(g), Fields: []fitmodel.FieldDef{{Num: 250, Size: 1, Base: 2}}},
					{Local: 1, Raw: []byte{1}}, {Local: 1, Raw: []byte{2}},
				}}
				f, err := fit.Decode(bytes.NewReader(st.Bytes()), fit.WithUnknownMessages(), fit.WithUnknownFields())
				ng++
				um, uf := tallies(st, len(st.Recs))
				gotM, gotF := map[uint16]int{}, map[[2]uint16]int{}
				if f != nil {
					for _, m := range f.UnknownMessages {
						gotM[uint16(m.MesgNum)] += m.Count
					}
					for _, u := range f.UnknownFields {
						gotF[[2]uint16{uint16(u.MesgNum), uint16(u.FieldNum)}] += u.Count
					}
				}
				if err != nil || fmt.Sprint(gotM) != fmt.Sprint(um) || fmt.Sprint(gotF) != fmt.Sprint(uf) {
					failed++
					c := optCase{FileType: 4, Stream: st, Chunk: gen.NoFault("whole", 0), Text: st.String()}
					rec.Fail("every-message-number", "", fmt.Sprintf("two records of message %d with field 250: err=%v, unknown messages %v (want %v), unknown fields %v (want %v)", g, err, gotM, um, gotF, uf), c)
				}
			}
			rec.Eval("every-message-number", ng)
			rec.NonTrivialEnum(ng)
			// every field number: three records of a known message (record,
			// lap, file_creator, event) carrying field f, for every f from 0
			// to 255 (one-byte fields; listed ones with their own type)
			nf := int64(0)
			for _, g := range []uint16{20, 19, 49, 21} {
				mi := prof.Table().Msgs[g]
				for f := 0; f <= 255 && failed < 3; f++ {
					fd := fitmodel.FieldDef{Num: byte(f), Size: 1, Base: 0x02}
					raw := []byte{7}
					if fi := mi.Fields[byte(f)]; fi != nil {
						bt := fitmodel.MustBase(fi.Base)
						if bt.String || fi.Array {
							continue
						}
						fd = fitmodel.FieldDef{Num: byte(f), Size: byte(bt.Size), Base: fi.Base}
						raw = make([]byte, bt.Size)
						raw[0] = 7
					}
					st := &fitmodel.Stream{HeaderSize: 12, Proto: 0x20, Recs: []fitmodel.Rec{
						{IsDef: true, Global: 0, Fields: []fitmodel.FieldDef{{Num: 0, Size: 1, Base: 0}}}, {Raw: []byte{4}},
						{IsDef: true, Local: 1, Global: g, Fields: []fitmodel.FieldDef{fd}},
						{Local: 1, Raw: raw}, {Local: 1, Raw: raw}, {Local: 1, Raw: raw},
					}}
					f2, err := fit.Decode(bytes.NewReader(st.Bytes()), fit.WithUnknownFields(), fit.WithUnknownMessages())
					nf++
					um, uf := tallies(st, len(st.Recs))
					gotM, gotF := map[uint16]int{}, map[[2]uint16]int{}
					if f2 != nil {
						for _, m := range f2.UnknownMessages {
							gotM[uint16(m.MesgNum)] += m.Count
						}
						for _, u := range f2.UnknownFields {
							gotF[[2]uint16{uint16(u.MesgNum), uint16(u.FieldNum)}] += u.Count
						}
					}
					if err != nil || fmt.Sprint(gotM) != fmt.Sprint(um) || fmt.Sprint(gotF) != fmt.Sprint(uf) {
						failed++
						c := optCase{FileType: 4, Stream: st, Chunk: gen.NoFault("whole", 0), Text: st.String()}
						rec.Fail("every-field-number", "", fmt.Sprintf("three records of message %d with field %d: err=%v, unknown messages %v (want %v), unknown fields %v (want %v)", g, f, err, gotM, um, gotF, uf), c)
					}
				}
			}
			rec.Eval("every-field-number", nf)
			rec.NonTrivialEnum(nf)
		}

		// long runs: one unlisted field number and one unknown message number
		// carried by tens of thousands of records (the counts are counts of
		// records, whatever their number)
		if hx.FirstShard() {
			for _, n := range []int{256, 65536, 70000} {
				s := &fitmodel.Stream{HeaderSize: 12, Proto: 0x20, Recs: []fitmodel.Rec{
					{IsDef: true, Global: 0, Fields: []fitmodel.FieldDef{{Num: 0, Size: 1, Base: 0}}}, {Raw: []byte{4}},
					{IsDef: true, Local: 1, Global: 20, Fields: []fitmodel.FieldDef{{Num: 3, Size: 1, Base: 2}, {Num: 200, Size: 1, Base: 2}}},
					{IsDef: true, Local: 2, Global: 0xFF40, Fields: []fitmodel.FieldDef{{Num: 1, Size: 1, Base: 2}}},
				}}
				for i := 0; i < n; i++ {
					s.Recs = append(s.Recs, fitmodel.Rec{Local: 1, Raw: []byte{byte(60 + i%100), byte(i)}}, fitmodel.Rec{Local: 2, Raw: []byte{byte(i)}})
				}
				c := optCase{FileType: 4, Stream: s, Chunk: gen.NoFault("whole", 0), Text: fmt.Sprintf("(%d records of message 20 with the unlisted field 200 and %d records of the unknown message 65344)", n, n)}
				rec.Eval("long-runs", 8)
				rec.NonTrivialEnum(1)
				if msg, ok := check(rec, c, map[string]int{}); !ok {
					rec.Fail("long-runs", "", msg, c)
				}
			}
		}

		// any input at all, well-formed or not (structural and byte-level
		// mutants of generated streams): the options change neither the
		// messages, nor the error, nor the bytes consumed. No model is
		// needed for that: the eight runs are compared with each other.
		hx.RapidCheck(t, rec, "options-on-any-input", func(rt *rapid.T, fail func(string, string, any)) {
			d := gen.D{T: rt}
			o := gen.DefaultStreamOpts()
			o.MaxRecs = 12
			s, _ := gen.GenStream(d, o)
			data := gen.MutateBytes(d, gen.MutateSpec(d, s).Bytes())
			ch := gen.DrawChunking(d)
			var results [8]runResult
			for set := 0; set < 8; set++ {
				r, p := runWith(data, ch, set)
				if p != nil {
					// a panic is C01's business; here only agreement counts,
					// and a panic under one option set only is disagreement
					r.errText = fmt.Sprintf("PANIC: %v", p)
				}
				results[set] = r
			}
			rec.Eval("options-on-any-input", 8)
			if results[0].errText != "" {
				rec.Class("any-input: Decode fails", 1)
				rec.NonTrivial(hx.FPBytes(data))
			}
			for set := 1; set < 8; set++ {
				a, b := results[0], results[set]
				if a.nilFile != b.nilFile || a.digest != b.digest || a.errText != b.errText || a.consumed != b.consumed {
					fail("", fmt.Sprintf("option set %03b (logger|unknownFields|unknownMessages) changes the outcome on this input:\nwithout options: err=%q consumed=%d file=%v\nwith:            err=%q consumed=%d file=%v\ninput: %s",
						set, a.errText, a.consumed, !a.nilFile, b.errText, b.consumed, !b.nilFile, hx.Hex(data)), anyCase{Data: hex.EncodeToString(data), Chunk: ch})
				}
			}
		})

		hx.RapidCheck(t, rec, "options", func(rt *rapid.T, fail func(string, string, any)) {
			d := gen.D{T: rt}
			o := gen.DefaultStreamOpts()
			o.ExtraFileIds = false
			o.MaxRecs = 20
			s, info := gen.GenStream(d, o)
			c := optCase{FileType: int(info.FileType), Stream: s, Chunk: gen.DrawChunking(d)}
			switch d.Int(0, 9, "failmode") {
			case 0:
				// undefined local type part-way
				var free []int
				used := map[byte]bool{}
				for _, r := range s.Recs {
					if r.IsDef {
						used[r.Local&0x0F] = true
					}
				}
				for l := 0; l < 16; l++ {
					if !used[byte(l)] {
						free = append(free, l)
					}
				}
				if len(free) > 0 && len(s.Recs) > 2 {
					pos := d.Int(2, len(s.Recs), "undefpos")
					ins := fitmodel.Rec{Local: byte(free[d.Int(0, len(free)-1, "undefl")])}
					s.Recs = append(append(append([]fitmodel.Rec{}, s.Recs[:pos]...), ins), s.Recs[pos:]...)
				}
			case 1:
				c.Chunk.CutAt = d.Int(int(s.HeaderSize), len(s.Bytes())-1, "cut")
			case 2:
				c.BadCRC = true
			case 3:
				c.BadHdrCRC = true
			}
			c.Text = s.String()
			labels := map[string]int{}
			rec.Eval("options", 8)
			msg, ok := check(rec, c, labels)
			for k := range labels {
				rec.Class(k, 1)
			}
			for k := range info.Labels {
				rec.Class("gen:"+k, 1)
			}
			if labels["has unknown message"] > 0 && labels["has unknown field of a known message"] > 0 {
				rec.NonTrivial(hx.FP(c.Text + fmt.Sprint(c.Chunk, c.BadCRC)))
				rec.Class("non-trivial: unknown message and unknown field together", 1)
			}
			if rec.WantSample() && len(s.Recs) < 9 && labels["has unknown message"] > 0 {
				rec.Sample(map[string]any{"stream": c.Text, "chunking": c.Chunk.String(), "bad_crc": c.BadCRC})
			}
			if !ok {
				fail("", msg, c)
			}
		})
	})
}

var _ = strings.Join
