//go:build verif

package c07

import (
	"bytes"
	"encoding/binary"
	"encoding/hex"
	"encoding/json"
	"fmt"
	"io"
	"os"
	"reflect"
	"strings"
	"testing"
	"unicode/utf8"

	"github.com/tormoder/fit"
	"pgregory.net/rapid"

	"verif/fitmodel"
	"verif/gen"
	"verif/hx"
	"verif/oracle"
	"verif/prof"
)

type inCase struct {
	Data string `json:"data_hex"`
	BE   bool   `json:"encode_big_endian"`
	Note string `json:"note,omitempty"`
}

func order(be bool) binary.ByteOrder {
	if be {
		return binary.BigEndian
	}
	return binary.LittleEndian
}

// hasBadString reports whether the part of some string field of f that
// Encode writes - the first profile-length-minus-one bytes, cut back to the
// start of a character - is not valid UTF-8 (signature of finding D9). Bytes
// of a longer decoded string that lie behind that part are never written and
// do not count.
func hasBadString(f *fit.File) bool {
	tab := prof.Table()
	for _, s := range append(prof.FileSlots(), prof.Slots(f.Type())...) {
		for _, m := range prof.SlotMsgs(f, s) {
			m = reflect.Indirect(m)
			if !m.IsValid() {
				continue
			}
			num, _ := prof.MsgNumOfType(m.Type().Name())
			mi := tab.Msgs[num]
			for i := 0; i < m.NumField(); i++ {
				v := prof.FromReflect(m.Field(i))
				size := 0
				if mi != nil && i < len(mi.BySIdx) && mi.BySIdx[i] != nil {
					size = mi.BySIdx[i].Length
				}
				switch {
				case v.K == 's':
					if !writtenPartValid(v.S, size) {
						return true
					}
				case v.K == 'a':
					for _, e := range v.Elems {
						if e.K == 's' && !utf8.ValidString(e.S) {
							return true
						}
					}
				}
			}
		}
	}
	return false
}

func writtenPartValid(s string, size int) bool {
	if size < 1 {
		return utf8.ValidString(s)
	}
	n := len(s)
	if n > size-1 {
		n = size - 1
		for n > 0 && !utf8.RuneStart(s[n]) {
			n--
		}
	}
	return utf8.ValidString(s[:n])
}

// typeChanged reports the signature of D13: the File's type no longer has the
// container that was set up for it.
func typeChanged(f *fit.File) bool {
	c, err := prof.Container(f)
	if err != nil {
		return true
	}
	vals, _ := prof.Accessors(f)
	_ = c
	for i, t := range prof.FileTypes {
		if t == f.Type() {
			return vals[i].IsNil()
		}
	}
	return true
}

// refusingWriter accepts a few bytes and then fails.
type refusingWriter struct{ left int }

func (w *refusingWriter) Write(p []byte) (int, error) {
	if len(p) > w.left {
		n := w.left
		w.left = 0
		return n, fmt.Errorf("verif: writer refuses further data")
	}
	w.left -= len(p)
	return len(p), nil
}

// checkInput runs the C07 relation on one input. accepted reports whether
// Decode accepted x (otherwise the case is vacuous).
func checkInput(rec *hx.Recorder, x []byte, be bool) (sig, msg string, ok, accepted bool) {
	var f1 *fit.File
	var err error
	if p := oracle.Catch(func() { f1, err = fit.Decode(bytes.NewReader(x)) }); p != nil {
		return "", fmt.Sprintf("Decode panicked: %v", p), false, false
	}
	if err != nil {
		return "", "", true, false
	}
	d13 := typeChanged(f1)
	if d13 && hx.Open("D13") {
		rec.Excluded("D13", 1)
		rec.Known("D13", "input "+hx.Hex(x)+" decodes to a File whose type has no container")
		return "", "", true, true
	}
	if len(x) > 0 && x[len(x)-1]%4 == 0 {
		// for a quarter of the inputs (chosen by the input's last byte, so
		// that a replay does the same) an Encode call that fails comes first:
		// a second decoding of the input written to a writer that refuses
		// data. What the next Encode writes must not depend on it.
		if f0, e0 := fit.Decode(bytes.NewReader(x)); e0 == nil {
			oracle.Catch(func() { _ = fit.Encode(&refusingWriter{left: 9}, f0, order(be)) })
			rec.Class("re-encoded right after a failing Encode call", 1)
		}
	}
	var out1 bytes.Buffer
	var eerr error
	if p := oracle.Catch(func() { eerr = fit.Encode(&out1, f1, order(be)) }); p != nil {
		s := ""
		if d13 {
			s = "D13:file-id-type-changed"
		}
		return s, fmt.Sprintf("Encode panicked on a File that Decode returned without error: %v", p), false, true
	}
	if eerr != nil {
		if strings.Contains(eerr.Error(), "UTF-8") && hasBadString(f1) {
			if hx.Open("D9") {
				rec.Excluded("D9", 1)
				rec.Known("D9", fmt.Sprintf("input %s: %v", hx.Hex(x), eerr))
				return "", "", true, true
			}
			return "D9:encode-rejects-non-utf8-string", fmt.Sprintf("Encode failed on a File that Decode accepted: %v", eerr), false, true
		}
		s := ""
		if d13 {
			s = "D13:file-id-type-changed"
		}
		return s, fmt.Sprintf("Encode failed on a File that Decode accepted: %v", eerr), false, true
	}
	// the same File once more, into another kind of writer: same bytes
	if msg := gen.CheckWriterKind(os.Getenv("VERIF_BUILD"), out1.Len(), out1.Bytes(), func(w io.Writer) error {
		return fit.Encode(w, f1, order(be))
	}); msg != "" {
		return "", "encoding the same File again: " + msg, false, true
	}
	if ierr := fit.CheckIntegrity(bytes.NewReader(out1.Bytes()), false); ierr != nil {
		return "", fmt.Sprintf("re-encoded output fails CheckIntegrity: %v\nout: %s", ierr, hx.Hex(out1.Bytes())), false, true
	}
	f2, err := fit.Decode(bytes.NewReader(out1.Bytes()))
	if err != nil {
		return "", fmt.Sprintf("re-encoded output does not decode: %v\nout: %s", err, hx.Hex(out1.Bytes())), false, true
	}
	if sig, msg, ok := sameContent(rec, f1, f2, "first decode", "after re-encoding"); !ok {
		return sig, msg, false, true
	}
	// second generation: fix-point
	var out2 bytes.Buffer
	if p := oracle.Catch(func() { eerr = fit.Encode(&out2, f2, order(be)) }); p != nil || eerr != nil {
		return "", fmt.Sprintf("second Encode failed: panic=%v err=%v", p, eerr), false, true
	}
	f3, err := fit.Decode(bytes.NewReader(out2.Bytes()))
	if err != nil {
		return "", fmt.Sprintf("second-generation output does not decode: %v", err), false, true
	}
	if sig, msg, ok := sameContent(rec, f2, f3, "second decode", "third decode"); !ok {
		return sig, "one round trip is not a fix-point:\n" + msg, false, true
	}
	return "", "", true, true
}

// sameContent compares two generations of decoded content field by field
// (strings and arrays cut to the profile's fixed lengths, arrays modulo
// trailing invalid padding, local times by wall clock). Disagreements that are
// exactly an open finding are excluded and counted.
func sameContent(rec *hx.Recorder, a, b *fit.File, na, nb string) (sig, msg string, ok bool) {
	exp := oracle.FileSame(a)
	diffs, _ := oracle.CompareNorm(b, exp)
	var real []oracle.Diff
	sigs := map[string]bool{}
	for _, d := range diffs {
		id := ""
		if strings.HasPrefix(d.Slot, "Records") {
			switch csdState(a, d) {
			case 2: // valid 3-byte compressed_speed_distance
				switch d.Field {
				case "Distance":
					id = "K1" // re-derived by the process-wide accumulator
				case "EnhancedSpeed":
					id = "D15"
				}
			case 1: // present but not 3 bytes long
				switch d.Field {
				case "Distance", "Speed", "EnhancedSpeed":
					id = "D15"
				}
			}
		}
		if id == "" && d.Want == fmt.Sprintf("t%dz0", int64(fitmodel.FitEpochUnix)+0xFFFFFFFF) && d.Got == fmt.Sprintf("t%dz0", int64(fitmodel.FitEpochUnix)) {
			// a compressed-timestamp sum that landed exactly on the
			// reserved value 0xFFFFFFFF
			id = "D16"
		}
		if id != "" {
			if hx.Open(id) {
				rec.Excluded(id, 1)
				if id == "D15" || id == "D16" || id == "K1" {
					rec.Known(id, fmt.Sprintf("%s[%d].%s: %s %s, %s %s", d.Slot, d.Index, d.Field, na, d.Want, nb, d.Got))
				}
				continue
			}
			sigs[id] = true
		}
		real = append(real, d)
	}
	if len(real) == 0 {
		return "", "", true
	}
	var sb strings.Builder
	for i, d := range real {
		if i == 8 {
			fmt.Fprintf(&sb, "… and %d more\n", len(real)-8)
			break
		}
		fmt.Fprintf(&sb, "%s[%d].%s: %s %s, %s %s\n", d.Slot, d.Index, d.Field, na, d.Want, nb, d.Got)
	}
	if len(sigs) == 1 && len(real) > 0 {
		allSame := true
		for _, d := range real {
			if !(strings.HasPrefix(d.Slot, "Records") && (d.Field == "Distance" || d.Field == "EnhancedSpeed" || d.Field == "Speed")) {
				allSame = false
			}
		}
		if allSame {
			for k := range sigs {
				switch k {
				case "K1":
					sig = "K1:package-level-accumulators"
				case "D15":
					sig = "D15:csd-derived-fields-unstable"
				}
			}
		}
	}
	return sig, sb.String(), false
}

// csdState classifies the record a diff points at: 0 no
// compressed_speed_distance, 1 present but not exactly 3 bytes, 2 a valid
// 3-byte value.
func csdState(f *fit.File, d oracle.Diff) int {
	for _, s := range prof.Slots(f.Type()) {
		if s.Name != d.Slot {
			continue
		}
		msgs := prof.SlotMsgs(f, s)
		if d.Index < 0 || d.Index >= len(msgs) || !msgs[d.Index].IsValid() {
			return 0
		}
		fv := msgs[d.Index].FieldByName("CompressedSpeedDistance")
		if !fv.IsValid() {
			return 0
		}
		v := prof.FromReflect(fv)
		if v.K != 'a' {
			return 0
		}
		if len(v.Elems) != 3 {
			return 1
		}
		if v.Elems[0].U == 0xFF && v.Elems[1].U == 0xFF && v.Elems[2].U == 0xFF {
			return 0
		}
		return 2
	}
	return 0
}

func trunc(s string) string {
	if len(s) > 1500 {
		return s[:1500] + "…"
	}
	return s
}

func hasMore(f []byte) bool {
	fl, err := fit.Decode(bytes.NewReader(f))
	if err != nil || fl == nil {
		return false
	}
	n := 0
	for _, c := range prof.CountMsgs(fl) {
		n += c
	}
	return n > 1
}

func TestC07(t *testing.T) {
	hx.Main(t, "C07", func(rec *hx.Recorder) {
		if rp, ok := hx.LoadReplay(); ok {
			var c inCase
			json.Unmarshal(rp.Case, &c)
			data, _ := hex.DecodeString(c.Data)
			rec.Eval("replay", 1)
			if sig, msg, ok, _ := checkInput(rec, data, c.BE); !ok {
				rec.Fail(rp.Sub, sig, msg, c)
			}
			return
		}

		if hx.FirstShard() {
			// (i) repository files
			for _, cf := range gen.Corpus() {
				if !hx.Thorough() && len(cf.Data) > 200000 {
					continue
				}
				for _, be := range []bool{false, true} {
					sig, msg, ok, acc := checkInput(rec, cf.Data, be)
					rec.Eval("corpus", 1)
					if acc {
						rec.NonTrivial(hx.FP(cf.Name + fmt.Sprint(be)))
						rec.Class("corpus-accepted", 1)
					}
					if !ok {
						rec.Fail("corpus", sig, cf.Name+": "+msg, inCase{Data: hex.EncodeToString(cf.Data), BE: be, Note: cf.Name})
					}
				}
			}

		}

		// long groups: thousands of messages of one kind in which a field is
		// carried only by the last one, two or three (the encoder writes one
		// definition per group, the union of the fields of all its messages;
		// however it walks the group, the tail counts)
		if hx.FirstShard() {
			for _, n := range []int{1023, 1024, 1025, 1030, 2049, 4099, 5003} {
				for tail := 1; tail <= 3; tail++ {
					be := (n+tail)%2 == 1
					s := &fitmodel.Stream{HeaderSize: 14, Proto: 0x20, Recs: []fitmodel.Rec{
						{IsDef: true, Global: 0, Fields: []fitmodel.FieldDef{{Num: 0, Size: 1, Base: 0}}}, {Raw: []byte{4}},
						{IsDef: true, Local: 1, BigEndian: be, Global: 20, Fields: []fitmodel.FieldDef{{Num: 253, Size: 4, Base: 0x86}}},
						{IsDef: true, Local: 2, BigEndian: be, Global: 20, Fields: []fitmodel.FieldDef{{Num: 253, Size: 4, Base: 0x86}, {Num: 3, Size: 1, Base: 2}, {Num: 7, Size: 2, Base: 0x84}}},
					}}
					for i := 0; i < n; i++ {
						ts := fitmodel.PutWireUint(uint64(0x3B9ACA00+i), 4, be)
						if i >= n-tail {
							s.Recs = append(s.Recs, fitmodel.Rec{Local: 2, Raw: append(append(ts, byte(100+i%50)), fitmodel.PutWireUint(uint64(200+i%300), 2, be)...)})
						} else {
							s.Recs = append(s.Recs, fitmodel.Rec{Local: 1, Raw: ts})
						}
					}
					x := s.Bytes()
					sig, msg, ok, acc := checkInput(rec, x, be)
					rec.Eval("long-groups", 1)
					if acc {
						rec.NonTrivial(hx.FPBytes(x))
					}
					if !ok {
						rec.Fail("long-groups", sig, fmt.Sprintf("activity with %d records, heart rate and power only on the last %d: %s", n, tail, msg), inCase{Data: hex.EncodeToString(x), BE: be})
					}
				}
			}
		}

		// wide: messages carrying every profile field at once (re-encoding
		// them needs definition messages with up to 130 fields)
		if hx.FirstShard() {
			tab := prof.Table()
			for _, ft := range prof.FileTypes {
				for _, sl := range prof.Slots(ft) {
					mi := tab.Msgs[sl.Msg]
					if mi == nil || len(mi.Fields) < 30 {
						continue
					}
					for _, be := range []bool{false, true} {
						def := fitmodel.Rec{IsDef: true, Local: 1, BigEndian: be, Global: sl.Msg}
						var raw []byte
						for _, n := range prof.FieldNums(sl.Msg) {
							fi := mi.Fields[n]
							bt := fitmodel.MustBase(fi.Base)
							size := bt.Size * fi.Length
							if bt.String {
								size = fi.Length
							}
							if size > 255 || size == 0 || len(raw)+size > 60000 {
								continue
							}
							def.Fields = append(def.Fields, fitmodel.FieldDef{Num: n, Size: byte(size), Base: fi.Base})
							if bt.String {
								b := make([]byte, size)
								copy(b, "w")
								raw = append(raw, b...)
							} else {
								for i := 0; i < size; i++ {
									raw = append(raw, 0x01)
								}
							}
						}
						st := &fitmodel.Stream{HeaderSize: 12, Proto: 0x20, Recs: []fitmodel.Rec{
							{IsDef: true, Global: 0, Fields: []fitmodel.FieldDef{{Num: 0, Size: 1, Base: 0}}}, {Raw: []byte{byte(ft)}},
							def, {Local: 1, Raw: raw}, {Local: 1, Raw: raw},
						}}
						x := st.Bytes()
						rec.Eval("wide", 1)
						sig, msg, ok, acc := checkInput(rec, x, be)
						if acc {
							rec.NonTrivial(hx.FPBytes(x))
							rec.Class(fmt.Sprintf("wide: %d-field definition accepted", len(def.Fields)), 1)
						}
						if !ok {
							rec.Fail("wide", sig, fmt.Sprintf("%s with all %d fields on the wire: %s", mi.Name, len(def.Fields), msg), inCase{Data: hex.EncodeToString(x), BE: be})
						}
					}
				}
			}
		}

		// dedicated reproductions of the open findings
		if hx.Open("D9") {
			s := &fitmodel.Stream{HeaderSize: 12, Proto: 0x20, Recs: []fitmodel.Rec{
				{IsDef: true, Global: 0, Fields: []fitmodel.FieldDef{{Num: 0, Size: 1, Base: 0}, {Num: 8, Size: 2, Base: 7}}},
				{Raw: []byte{4, 0xFF, 0x00}},
			}}
			checkInput(rec, s.Bytes(), false)
		}
		if hx.Open("D13") {
			s := &fitmodel.Stream{HeaderSize: 12, Proto: 0x20, Recs: []fitmodel.Rec{
				{IsDef: true, Global: 0, Fields: []fitmodel.FieldDef{{Num: 0, Size: 1, Base: 0}}},
				{Raw: []byte{4}}, {Raw: []byte{2}},
			}}
			checkInput(rec, s.Bytes(), false)
		}

		if hx.Open("D15") {
			s := &fitmodel.Stream{HeaderSize: 12, Proto: 0x20, Recs: []fitmodel.Rec{
				{IsDef: true, Global: 0, Fields: []fitmodel.FieldDef{{Num: 0, Size: 1, Base: 0}}},
				{Raw: []byte{4}},
				{IsDef: true, Local: 1, Global: 20, Fields: []fitmodel.FieldDef{{Num: 8, Size: 3, Base: 0x0D}}},
				{Local: 1, Raw: []byte{0x10, 0x02, 0x00}},
			}}
			checkInput(rec, s.Bytes(), false)
		}
		if hx.Open("D16") {
			s := &fitmodel.Stream{HeaderSize: 12, Proto: 0x20, Recs: []fitmodel.Rec{
				{IsDef: true, Global: 0, Fields: []fitmodel.FieldDef{{Num: 0, Size: 1, Base: 0}}},
				{Raw: []byte{4}},
				{IsDef: true, Local: 1, Global: 20, Fields: []fitmodel.FieldDef{{Num: 253, Size: 4, Base: 0x86}}},
				{Local: 1, Raw: []byte{0xFE, 0xFF, 0xFF, 0xFF}},
				{IsDef: true, Local: 2, Global: 20, Fields: []fitmodel.FieldDef{{Num: 3, Size: 1, Base: 2}}},
				{Local: 2, Compressed: true, TimeOffset: 31, Raw: []byte{60}},
			}}
			checkInput(rec, s.Bytes(), false)
		}

		// (ii) generated accepted streams
		hx.RapidCheck(t, rec, "streams", func(rt *rapid.T, fail func(string, string, any)) {
			d := gen.D{T: rt}
			o := gen.DefaultStreamOpts()
			o.OddStrings = !hx.Open("D9") // excluded by construction while D9 is open
			if d.Int(0, 5, "wide") == 0 {
				// definitions with as many fields as the message has (the
				// re-encoding then needs definitions of 80+ fields)
				o.MaxFields = 130
				o.MaxRecs = 8
				rec.Class("wide definitions", 1)
			}
			s, _ := gen.GenStream(d, o)
			x := s.Bytes()
			be := d.Bool("encbe")
			rec.Eval("streams", 1)
			sig, msg, ok, acc := checkInput(rec, x, be)
			if acc && len(s.Recs) > 2 {
				rec.NonTrivial(hx.FPBytes(x))
				rec.Class("stream-accepted", 1)
			}
			if rec.WantSample() && len(s.Recs) < 7 && acc {
				rec.Sample(map[string]any{"stream": s.String(), "encode_big_endian": be})
			}
			if !ok {
				fail(sig, msg+"\nstream: "+s.String(), inCase{Data: hex.EncodeToString(x), BE: be})
			}
		})

		// (iii) mutants with repaired framing
		corpus := gen.SmallCorpus(30000)
		hx.RapidCheck(t, rec, "mutants", func(rt *rapid.T, fail func(string, string, any)) {
			d := gen.D{T: rt}
			var x []byte
			if d.Chance(60, "src") || len(corpus) == 0 {
				o := gen.DefaultStreamOpts()
				o.OddStrings = !hx.Open("D9")
				o.ExtraFileIds = false
				s, _ := gen.GenStream(d, o)
				x = gen.MutateSpec(d, s).Bytes()
			} else {
				cf := corpus[d.Int(0, len(corpus)-1, "cf")]
				x = append([]byte(nil), cf.Data...)
				if p, err := fitmodel.Parse(cf.Data); err == nil {
					x = gen.MutateSpec(d, p.Stream).Bytes()
				}
			}
			if d.Chance(30, "bytemut") {
				x = gen.MutateBytes(d, x)
				fitmodel.FixFrame(x, false)
			}
			be := d.Bool("encbe")
			rec.Eval("mutants", 1)
			sig, msg, ok, acc := checkInput(rec, x, be)
			if acc {
				rec.Class("mutant-accepted", 1)
				rec.NonTrivial(hx.FPBytes(x))
			}
			if !ok {
				fail(sig, msg, inCase{Data: hex.EncodeToString(x), BE: be})
			}
		})
	})
}
