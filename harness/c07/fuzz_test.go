//go:build verif

package c07

import (
	"encoding/hex"
	"testing"

	"verif/fitmodel"
	"verif/gen"
	"verif/hx"
	"verif/prof"
)

// frame wraps fuzzer-chosen record bytes into a valid FIT frame: header,
// file_id definition + data (type chosen by ftSel), the records, CRC. All the
// fuzzer's effort goes into record structure.
func frame(records []byte, ftSel uint8) []byte {
	ft := byte(prof.FileTypes[int(ftSel)%len(prof.FileTypes)])
	body := []byte{0x40, 0, 0, 0, 0, 1, 0, 1, 0, 0x00, ft}
	body = append(body, records...)
	s := &fitmodel.Stream{HeaderSize: 14, Proto: 0x20, ProfileVer: 2140}
	b := append(s.Header(len(body)), body...)
	c := fitmodel.CRC(b)
	return append(b, byte(c), byte(c>>8))
}

// FuzzReencode: coverage-guided search for an input that Decode accepts but
// whose re-encoding fails, fails integrity, or changes content (thorough tier
// of C07). Open findings are excluded inside checkInput.
func FuzzReencode(f *testing.F) {
	for _, cf := range gen.SmallCorpus(3000) {
		if p, err := fitmodel.Parse(cf.Data); err == nil && len(p.Layout.RecEnd) > 2 {
			// records after file_id definition + data
			recs := cf.Data[p.Layout.RecEnd[1] : len(cf.Data)-2]
			f.Add(recs, uint8(0), false)
		}
	}
	f.Add([]byte{0x41, 0, 0, 20, 0, 2, 253, 4, 0x86, 3, 1, 2, 0x01, 0, 0xCA, 0x9A, 0x3B, 60, 0xA1, 61}, uint8(0), true)
	f.Add([]byte{0x42, 0, 1, 0, 21, 3, 0, 1, 0, 3, 4, 0x86, 2, 2, 0x84, 0x02, 33, 0, 1, 0, 2, 0, 7}, uint8(0), false)
	f.Add([]byte{0x43, 0, 0, 19, 0, 2, 13, 2, 0x84, 254, 2, 0x84, 0x03, 0x10, 0x27, 1, 0}, uint8(5), false)
	rec := hx.NewRecorder("C07")
	f.Fuzz(func(t *testing.T, records []byte, ftSel uint8, be bool) {
		if len(records) > 4096 {
			return
		}
		x := frame(records, ftSel)
		if sig, msg, ok, _ := checkInput(rec, x, be); !ok {
			rec.SaveReplay("fuzz", inCase{Data: hex.EncodeToString(x), BE: be, Note: sig})
			t.Fatal(msg)
		}
	})
}
