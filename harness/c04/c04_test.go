//go:build verif

package c04

import (
	"bytes"
	"encoding/binary"
	"encoding/hex"
	"encoding/json"
	"fmt"
	"io"
	"log"
	"os"
	"runtime"
	"strconv"
	"sync"
	"testing"

	"github.com/tormoder/fit"
	"pgregory.net/rapid"

	"verif/fitmodel"
	"verif/gen"
	"verif/hx"
	"verif/oracle"
)

// corruptCase: XOR the bit pattern (bit 0 of Pattern = first bit of the run,
// Length bits long, first and last bit set) into File starting at bit BitPos.
// Bits are numbered in the order CRC-16/ARC (a reflected CRC) and a serial link
// process them: bit 0 is the LEAST significant bit of byte 0, bit 8 the least
// significant bit of byte 1. Only in this order is a "run of contiguous bits"
// a burst in the sense of the CRC burst-detection theorem; a run that is
// contiguous in most-significant-bit-first numbering and crosses two byte
// boundaries spreads over up to 24 positions of the CRC's bit stream and may
// legitimately go undetected (probability 2^-16; observed once at seed 3 with
// the first version of this check, which numbered bits the other way - a
// false alarm of the check, corrected here).
type corruptCase struct {
	File    string `json:"file_hex"`
	BitPos  int    `json:"bit_pos"`
	Length  int    `json:"burst_length"`
	Pattern uint32 `json:"pattern"`
	Note    string `json:"note,omitempty"`
}

func applyBurst(dst, src []byte, bitPos, length int, pattern uint32) {
	copy(dst, src)
	for i := 0; i < length; i++ {
		if pattern>>uint(i)&1 == 1 {
			p := bitPos + i
			dst[p/8] ^= 0x01 << uint(p%8)
		}
	}
}

// allowed reports whether the burst window [bitPos, bitPos+length) avoids
// header byte 0 and header bytes 4..7 and lies inside the file.
func allowed(n, bitPos, length int) bool {
	end := bitPos + length // exclusive
	if end > n*8 {
		return false
	}
	overlap := func(lo, hi int) bool { return bitPos < hi*8 && end > lo*8 }
	return !overlap(0, 1) && !overlap(4, 8)
}

func decodeErr(b []byte) (err error, p any) {
	p = oracle.Catch(func() { _, err = fit.Decode(bytes.NewReader(b)) })
	return
}

func integrityErr(b []byte, hdrOnly bool) (err error, p any) {
	p = oracle.Catch(func() { err = fit.CheckIntegrity(bytes.NewReader(b), hdrOnly) })
	return
}

// checkValid: property part (A).
func checkValid(b []byte) (string, bool) {
	if err, p := decodeErr(b); err != nil || p != nil {
		return fmt.Sprintf("valid file rejected by Decode: err=%v panic=%v", err, p), false
	}
	if err, p := integrityErr(b, false); err != nil || p != nil {
		return fmt.Sprintf("valid file rejected by CheckIntegrity(false): err=%v panic=%v", err, p), false
	}
	if err, p := integrityErr(b, true); err != nil || p != nil {
		return fmt.Sprintf("valid file rejected by CheckIntegrity(true): err=%v panic=%v", err, p), false
	}
	// the verdict on a valid file does not depend on how the reader splits it
	for _, ch := range gen.StandardChunkings()[1:] {
		var derr, ierr error
		if p := oracle.Catch(func() {
			_, derr = fit.Decode(gen.NewReader(b, ch))
			ierr = fit.CheckIntegrity(gen.NewReader(b, ch), false)
		}); p != nil || derr != nil || ierr != nil {
			return fmt.Sprintf("valid file rejected when read with chunking %v: Decode err=%v CheckIntegrity err=%v panic=%v", ch, derr, ierr, p), false
		}
	}
	// nor on the concrete type of the reader (seekable and not at offset 0,
	// a file, a pipe, buffered)
	for _, kind := range gen.ReaderKinds(os.Getenv("VERIF_BUILD")) {
		for call := 0; call < 2; call++ {
			r, _, done, err := kind.Open(b)
			if err != nil {
				break
			}
			var cerr error
			p := oracle.Catch(func() {
				if call == 0 {
					_, cerr = fit.Decode(r)
				} else {
					cerr = fit.CheckIntegrity(r, false)
				}
			})
			done()
			if p != nil || cerr != nil {
				return fmt.Sprintf("valid file rejected when read through a %s: %s err=%v panic=%v", kind.Name, []string{"Decode", "CheckIntegrity"}[call], cerr, p), false
			}
		}
	}
	return "", true
}

func checkCorrupt(c corruptCase) (string, bool) {
	src, err := hex.DecodeString(c.File)
	if err != nil {
		return "bad replay", false
	}
	if !allowed(len(src), c.BitPos, c.Length) {
		return "", true
	}
	buf := make([]byte, len(src))
	applyBurst(buf, src, c.BitPos, c.Length, c.Pattern)
	if bytes.Equal(buf, src) {
		return "", true
	}
	if err, p := decodeErr(buf); p != nil {
		return fmt.Sprintf("Decode panicked on the corrupted file: %v", p), false
	} else if err == nil {
		return fmt.Sprintf("Decode accepted a file with a %d-bit burst (pattern %#x) at bit %d (byte %d)", c.Length, c.Pattern, c.BitPos, c.BitPos/8), false
	}
	if err, p := integrityErr(buf, false); p != nil {
		return fmt.Sprintf("CheckIntegrity panicked on the corrupted file: %v", p), false
	} else if err == nil {
		return fmt.Sprintf("CheckIntegrity accepted a file with a %d-bit burst (pattern %#x) at bit %d (byte %d)", c.Length, c.Pattern, c.BitPos, c.BitPos/8), false
	}
	return "", true
}

// patterns returns the burst patterns to try at a position: quick = 16 solid
// runs, 16 end-points-only, 16 position-seeded; all = every pattern with first
// and last bit set (32768).
func patternsFor(pos int, all bool) [][2]uint32 { // (length, pattern)
	var out [][2]uint32
	if all {
		out = append(out, [2]uint32{1, 1})
		for l := 2; l <= 16; l++ {
			for mid := uint32(0); mid < 1<<uint(l-2); mid++ {
				out = append(out, [2]uint32{uint32(l), 1 | mid<<1 | 1<<uint(l-1)})
			}
		}
		return out
	}
	for l := 1; l <= 16; l++ {
		out = append(out, [2]uint32{uint32(l), 1<<uint(l) - 1})
		if l >= 2 {
			out = append(out, [2]uint32{uint32(l), 1 | 1<<uint(l-1)})
		}
	}
	x := uint32(pos)*2654435761 + 12345
	for i := 0; i < 17; i++ {
		x ^= x << 13
		x ^= x >> 17
		x ^= x << 5
		l := 3 + int(x>>8)%14
		mid := (x >> 12) & (1<<uint(l-2) - 1)
		out = append(out, [2]uint32{uint32(l), 1 | mid<<1 | 1<<uint(l-1)})
	}
	return out
}

// enumerate runs all positions x patterns on file b in parallel and returns
// the smallest failing case.
func enumerate(rec *hx.Recorder, b []byte, all bool, regions map[string]int64) (*corruptCase, string, int64) {
	workers := runtime.NumCPU()
	var wg sync.WaitGroup
	var mu sync.Mutex
	var best *corruptCase
	var bestMsg string
	var total int64
	hs := int(b[0])
	fileHex := hex.EncodeToString(b)
	for w := 0; w < workers; w++ {
		wg.Add(1)
		go func(w int) {
			defer wg.Done()
			buf := make([]byte, len(b))
			n := int64(0)
			loc := map[string]int64{}
			for pos := 8 + w; pos < len(b)*8; pos += workers {
				for _, lp := range patternsFor(pos, all) {
					l, pat := int(lp[0]), lp[1]
					if !allowed(len(b), pos, l) {
						continue
					}
					applyBurst(buf, b, pos, l, pat)
					n++
					first, last := pos/8, (pos+l-1)/8
					switch {
					case last < hs:
						loc["header"]++
					case first < hs:
						loc["header/data boundary"]++
					case first >= len(b)-2:
						loc["file crc"]++
					case last >= len(b)-2:
						loc["data/crc boundary"]++
					default:
						loc["records"]++
					}
					bad := ""
					if err, p := decodeErr(buf); p != nil {
						bad = fmt.Sprintf("Decode panicked: %v", p)
					} else if err == nil {
						bad = "Decode accepted"
					} else if err, p := integrityErr(buf, false); p != nil {
						bad = fmt.Sprintf("CheckIntegrity panicked: %v", p)
					} else if err == nil {
						bad = "CheckIntegrity accepted"
					}
					if bad != "" {
						c := corruptCase{File: fileHex, BitPos: pos, Length: l, Pattern: pat}
						mu.Lock()
						if best == nil || c.BitPos < best.BitPos || (c.BitPos == best.BitPos && (c.Length < best.Length || (c.Length == best.Length && c.Pattern < best.Pattern))) {
							best = &c
							bestMsg = fmt.Sprintf("%s a file with a %d-bit burst (pattern %#x) at bit %d (byte %d of %d)", bad, l, pat, pos, pos/8, len(b))
						}
						mu.Unlock()
					}
				}
			}
			mu.Lock()
			total += n
			for k, v := range loc {
				regions[k] += v
			}
			mu.Unlock()
		}(w)
	}
	wg.Wait()
	// value-aware bursts: overwrite every 1- and 2-byte window with 0x00.. and
	// 0xFF.. (the XOR pattern is the window's own value or its complement, a
	// burst of at most 16 bits). These are the corruptions that turn a stored
	// CRC into a reserved value such as 0x0000.
	buf := make([]byte, len(b))
	for o := 1; o < len(b); o++ {
		for w := 1; w <= 2 && o+w <= len(b); w++ {
			if !allowed(len(b), o*8, w*8) {
				continue
			}
			for _, fillv := range []byte{0x00, 0xFF} {
				copy(buf, b)
				for i := 0; i < w; i++ {
					buf[o+i] = fillv
				}
				if bytes.Equal(buf, b) {
					continue
				}
				total++
				regions["value-aware window"]++
				bad := ""
				if err, p := decodeErr(buf); p != nil {
					bad = fmt.Sprintf("Decode panicked: %v", p)
				} else if err == nil {
					bad = "Decode accepted"
				} else if err, p := integrityErr(buf, false); p != nil {
					bad = fmt.Sprintf("CheckIntegrity panicked: %v", p)
				} else if err == nil {
					bad = "CheckIntegrity accepted"
				}
				if bad != "" && best == nil {
					// express as a burst case: XOR pattern over the window
					var pat uint32
					first, last := -1, -1
					for i := 0; i < w*8; i++ {
						by, bit := o+i/8, uint(i%8)
						if (b[by]^buf[by])>>bit&1 == 1 {
							if first < 0 {
								first = i
							}
							last = i
						}
					}
					for i := first; i <= last; i++ {
						by, bit := o+i/8, uint(i%8)
						if (b[by]^buf[by])>>bit&1 == 1 {
							pat |= 1 << uint(i-first)
						}
					}
					best = &corruptCase{File: fileHex, BitPos: o*8 + first, Length: last - first + 1, Pattern: pat}
					bestMsg = fmt.Sprintf("%s a file whose bytes %d..%d were overwritten with %#02x (a burst of %d bits)", bad, o, o+w-1, fillv, last-first+1)
				}
			}
		}
	}
	return best, bestMsg, total
}

// header verdicts, part (C)
type headerCase struct {
	Size     byte   `json:"size"`
	Proto    byte   `json:"proto"`
	Profile  uint16 `json:"profile"`
	DataType string `json:"data_type"`
	CRCMode  int    `json:"crc_mode"` // 0 correct, 1 zero, 2 wrong (xor Delta)
	Delta    uint16 `json:"delta"`
}

func checkHeader(c headerCase) (string, bool) {
	body := []byte{0x40, 0, 0, 0, 0, 1, 0, 1, 0, 0x00, 4} // file_id definition + data (activity)
	h := make([]byte, 12, 14)
	h[0] = c.Size
	h[1] = c.Proto
	binary.LittleEndian.PutUint16(h[2:], c.Profile)
	binary.LittleEndian.PutUint32(h[4:], uint32(len(body)))
	copy(h[8:12], c.DataType)
	stored := uint16(0)
	if c.Size == 14 {
		stored = fitmodel.CRC(h[:12])
		switch c.CRCMode {
		case 1:
			stored = 0
		case 2:
			stored ^= c.Delta
		}
		h = append(h, byte(stored), byte(stored>>8))
	}
	file := append(append([]byte{}, h...), body...)
	fc := fitmodel.CRC(file)
	file = append(file, byte(fc), byte(fc>>8))

	// independent verdict
	bad := c.Proto>>4 > 2 || c.DataType != ".FIT" ||
		(c.Size == 14 && stored != 0 && stored != fitmodel.CRC(h[:12]))
	crcBad := c.Size == 14 && stored != 0 && stored != fitmodel.CRC(h[:12])

	results := map[string]error{}
	var perr any
	perr = oracle.Catch(func() {
		results["CheckIntegrity(headerOnly)"] = fit.CheckIntegrity(bytes.NewReader(file), true)
		results["CheckIntegrity(full)"] = fit.CheckIntegrity(bytes.NewReader(file), false)
		_, err := fit.DecodeHeader(bytes.NewReader(file))
		results["DecodeHeader"] = err
		_, _, err = fit.DecodeHeaderAndFileID(bytes.NewReader(file))
		results["DecodeHeaderAndFileID"] = err
		_, err = fit.Decode(bytes.NewReader(file))
		results["Decode"] = err
		// the verdict on a header does not depend on decode options
		_, err = fit.Decode(bytes.NewReader(file), fit.WithLogger(log.New(io.Discard, "", 0)))
		results["Decode with a logger"] = err
		_, err = fit.Decode(bytes.NewReader(file), fit.WithUnknownFields(), fit.WithUnknownMessages())
		results["Decode with the unknown options"] = err
		fs, err := fit.DecodeChained(bytes.NewReader(file), fit.WithLogger(log.New(io.Discard, "", 0)))
		_ = fs
		results["DecodeChained with a logger"] = err
		var dt [4]byte
		copy(dt[:], c.DataType)
		hs := fit.Header{Size: c.Size, ProtocolVersion: c.Proto, ProfileVersion: c.Profile, DataSize: uint32(len(body)), DataType: dt, CRC: stored}
		results["Header.CheckIntegrity"] = hs.CheckIntegrity()
	})
	if perr != nil {
		return fmt.Sprintf("panic: %v", perr), false
	}
	for name, err := range results {
		if (err != nil) != bad {
			why := "matching or absent CRC, supported protocol, .FIT"
			if bad {
				why = fmt.Sprintf("crc mismatch=%v proto=%#x datatype=%q", crcBad, c.Proto, c.DataType)
			}
			return fmt.Sprintf("%s returned %v; independent verdict: reject=%v (%s); header bytes %x", name, err, bad, why, h), false
		}
	}
	return "", true
}

func headerProp(rec *hx.Recorder, d gen.D, fail func(string, string, any)) {
	c := headerCase{Size: 14, Proto: d.Byte("proto"), Profile: uint16(d.Int(0, 65535, "prof")), DataType: ".FIT", CRCMode: d.Int(0, 2, "mode"), Delta: uint16(d.Int(1, 65535, "delta"))}
	if d.Chance(25, "sz12") {
		c.Size = 12
	}
	if d.Chance(50, "protook") {
		c.Proto = []byte{0x10, 0x20, 0x21, 0x00}[d.Int(0, 3, "pv")]
	}
	if d.Chance(8, "dt") {
		c.DataType = ".FIt"
	}
	rec.Eval("headers", 1)
	if c.Size == 14 && c.CRCMode == 2 {
		rec.Class("header-crc-wrong", 1)
		rec.NonTrivial(hx.FP(fmt.Sprint(c)))
	}
	if msg, ok := checkHeader(c); !ok {
		fail("", msg, c)
	}
}

func drawFile(d gen.D) ([]byte, string) {
	switch d.Int(0, 9, "src") {
	case 0, 1, 2, 3:
		o := gen.DefaultFileOpts()
		o.MaxMsgs = 2
		o.FieldPct = 12
		o.LongSlots = false
		fs := gen.GenFile(d, o)
		f, err := gen.BuildFile(fs)
		if err != nil {
			return nil, ""
		}
		var buf bytes.Buffer
		ord := binary.ByteOrder(binary.LittleEndian)
		if fs.BigEndian {
			ord = binary.BigEndian
		}
		if err := fit.Encode(&buf, f, ord); err != nil {
			return nil, ""
		}
		return buf.Bytes(), "encoded"
	default:
		o := gen.DefaultStreamOpts()
		o.MaxRecs = 8
		s, _ := gen.GenStream(d, o)
		return s.Bytes(), "generated-stream"
	}
}

// fourGiB checks a streamed 4 GiB file with CheckIntegrity: k=0 intact under
// a 12-byte header (data size 2^32-1), k=1 under a 14-byte header with a
// valid header CRC (data size 2^32-2) and one bit inverted half way.
func fourGiB(k int) string {
	var g *gen.BigFile
	if k == 0 {
		g = gen.NewBigFile(0xFFFFFFFF, 0xFFFFFFFF, nil)
	} else {
		g = gen.NewBigFile(0xFFFFFFFE, 0xFFFFFFFE, nil, true)
		g.FlipAt = 1 << 31
	}
	var err error
	if p := oracle.Catch(func() { err = fit.CheckIntegrity(g, false) }); p != nil {
		return fmt.Sprintf("CheckIntegrity panicked on a %d-byte file: %v", g.Total(), p)
	}
	switch {
	case k == 0 && err != nil:
		return fmt.Sprintf("CheckIntegrity rejects an intact %d-byte file (12-byte header, data size 2^32-1): %v", g.Total(), err)
	case k == 1 && err == nil:
		return fmt.Sprintf("CheckIntegrity returned nil for a %d-byte file (14-byte header with a valid CRC, data size 2^32-2) with one bit inverted at offset 2^31; it read %d bytes", g.Total(), g.Delivered)
	}
	return ""
}

func TestC04(t *testing.T) {
	hx.Main(t, "C04", func(rec *hx.Recorder) {
		if rp, ok := hx.LoadReplay(); ok {
			rec.Eval("replay", 1)
			switch rp.Sub {
			case "four-gib":
				for k := 0; k < 2; k++ {
					if msg := fourGiB(k); msg != "" {
						rec.Fail(rp.Sub, "", msg, corruptCase{Note: msg})
					}
				}
			case "headers", "header-grid":
				var c headerCase
				json.Unmarshal(rp.Case, &c)
				if msg, ok := checkHeader(c); !ok {
					rec.Fail(rp.Sub, "", msg, c)
				}
			default:
				var c corruptCase
				json.Unmarshal(rp.Case, &c)
				src, _ := hex.DecodeString(c.File)
				if c.Length == 0 {
					if msg, ok := checkValid(src); !ok {
						rec.Fail(rp.Sub, "", msg, c)
					}
					return
				}
				if msg, ok := checkCorrupt(c); !ok {
					rec.Fail(rp.Sub, "", msg, c)
				}
			}
			return
		}
		// files that really are 4 GiB long (data sizes 2^32-2 and 2^32-1,
		// streamed, not held): the intact one passes CheckIntegrity, one
		// with a single bit inverted half way fails it. They run while the
		// rest of this process's work goes on (first shard, 64-bit builds).
		var big []chan string
		if hx.FirstShard() && strconv.IntSize == 64 && os.Getenv("VERIF_VARIANT") == "" {
			for k := 0; k < 2; k++ {
				ch := make(chan string, 1)
				big = append(big, ch)
				go func(k int) { ch <- fourGiB(k) }(k)
			}
		}
		defer func() {
			for _, ch := range big {
				rec.Eval("four-gib", 1)
				rec.NonTrivialEnum(1)
				if msg := <-ch; msg != "" {
					rec.Fail("four-gib", "", msg, corruptCase{Note: msg})
				}
			}
		}()
		regions := map[string]int64{}

		// (C) header verdict grid: sizes x protocol x data type x crc modes
		n := int64(0)
		for _, size := range []byte{12, 14} {
			for _, proto := range []byte{0x00, 0x10, 0x1F, 0x20, 0x2F, 0x30, 0xF0} {
				for _, dt := range []string{".FIT", ".fit", "\x00FIT", ".FIX"} {
					for mode := 0; mode < 3; mode++ {
						deltas := []uint16{1}
						if mode == 2 {
							deltas = []uint16{1, 0x8000, 0x0100, 0xFFFF, 0x1234}
						}
						for _, dl := range deltas {
							c := headerCase{size, proto, 2140, dt, mode, dl}
							n++
							if msg, ok := checkHeader(c); !ok {
								rec.Fail("header-grid", "", msg, c)
							}
						}
					}
				}
			}
		}
		rec.Eval("header-grid", n)
		rec.NonTrivialEnum(n)

		// "a file that Encode produced passes": also when the File object
		// already carries header CRC, data size and file CRC values from an
		// earlier life (decoded, or encoded before and edited since)
		encCases, encFailed := 0, false
		hx.RapidCheck(t, rec, "encoded", func(rt *rapid.T, fail func(string, string, any)) {
			if encCases >= hx.Pick(300, 20000) && !encFailed {
				return
			}
			d := gen.D{T: rt}
			// (the rapid case count of this binary is small: several Files per case)
			for k := 0; k < 12; k++ {
				encCases++
				o := gen.DefaultFileOpts()
				o.MaxMsgs = 2
				o.FieldPct = 12
				o.LongSlots = false
				fs := gen.GenFile(d, o)
				fs.Stale = d.Int(0, 2, "stale2") != 0
				f, err := gen.BuildFile(fs)
				if err != nil {
					continue
				}
				var buf bytes.Buffer
				ord := binary.ByteOrder(binary.LittleEndian)
				if fs.BigEndian {
					ord = binary.BigEndian
				}
				if err := fit.Encode(&buf, f, ord); err != nil {
					continue
				}
				rec.Eval("encoded", 1)
				if fs.Stale && fs.HdrCRC {
					rec.NonTrivial(hx.FPBytes(buf.Bytes()))
					rec.Class("encoded from a File with stale header CRC / sizes, 14-byte header", 1)
				}
				if msg, ok := checkValid(buf.Bytes()); !ok {
					encFailed = true
					fail("", "file written by Encode: "+msg, corruptCase{File: hex.EncodeToString(buf.Bytes())})
				}
			}
		})

		hx.RapidCheck(t, rec, "headers", func(rt *rapid.T, fail func(string, string, any)) {
			d := gen.D{T: rt}
			// header cases are cheap: 100 per rapid case
			for k := 0; k < 100; k++ {
				headerProp(rec, d, fail)
			}
		})
		// (A)+(B): valid files x every bit position x burst patterns
		hx.RapidCheck(t, rec, "bursts", func(rt *rapid.T, fail func(string, string, any)) {
			d := gen.D{T: rt}
			b, kind := drawFile(d)
			if b == nil || len(b) > 700 {
				rec.Class("file-skipped(too long or not encodable)", 1)
				return
			}
			rec.Class("file:"+kind, 1)
			if b[0] == 14 {
				if b[12] == 0 && b[13] == 0 {
					rec.Class("file:header-crc-zero", 1)
				} else {
					rec.Class("file:header-crc-set", 1)
				}
			}
			if msg, ok := checkValid(b); !ok {
				fail("", msg, corruptCase{File: hex.EncodeToString(b)})
			}
			best, msg, total := enumerate(rec, b, false, regions)
			rec.Eval("bursts", total)
			rec.NonTrivialEnum(total)
			if rec.WantSample() {
				rec.Sample(corruptCase{File: hex.EncodeToString(b), BitPos: 100, Length: 9, Pattern: 0x101})
			}
			if best != nil {
				fail("", msg, *best)
			}
		})

		// big valid files (data area beyond the decoder's 4096-byte buffer,
		// developer payloads beyond its scratch buffer): the verdict on the
		// valid file under every chunking, and a sample of bursts
		bigCases := 0
		// data sizes at and next to multiples of the decoder's 4096-byte
		// buffer: valid files must pass every integrity entry point
		{
			base := &fitmodel.Stream{HeaderSize: 14, Proto: 0x20, Recs: []fitmodel.Rec{
				{IsDef: true, Global: 0, Fields: []fitmodel.FieldDef{{Num: 0, Size: 1, Base: 0}}}, {Raw: []byte{4}},
				{IsDef: true, Local: 1, Global: 20, Fields: []fitmodel.FieldDef{{Num: 253, Size: 4, Base: 0x86}, {Num: 3, Size: 1, Base: 2}}},
				{Local: 1, Raw: []byte{1, 2, 3, 4, 90}}, {Local: 1, Raw: []byte{2, 2, 3, 4, 91}},
			}}
			na := int64(0)
			for _, blk := range []int{4096, 8192, 32768} {
				for delta := -2; delta <= 1; delta++ {
					s, ok := gen.SlideTo(base, blk+delta-gen.TailLen(base))
					if !ok {
						continue
					}
					b := s.Bytes()
					na++
					if msg, ok := checkValid(b); !ok {
						rec.Fail("aligned", "", fmt.Sprintf("data size %d: %s", blk+delta, msg), corruptCase{File: hex.EncodeToString(b)})
					}
				}
			}
			rec.Eval("aligned", na)
			rec.NonTrivialEnum(na)
		}

		hx.RapidCheck(t, rec, "big-files", func(rt *rapid.T, fail func(string, string, any)) {
			if bigCases >= hx.Pick(12, 150) {
				return
			}
			bigCases++
			d := gen.D{T: rt}
			o := gen.DefaultStreamOpts()
			o.ExtraFileIds = false
			o.MinRecs, o.MaxRecs = 120, 300
			o.MaxFields = 10
			s, _ := gen.GenStream(d, o)
			b := s.Bytes()
			rec.Eval("big-files", 1)
			if len(b) > 4096+14 {
				rec.Class("file larger than 4096 bytes", 1)
				rec.NonTrivial(hx.FPBytes(b))
			}
			if msg, ok := checkValid(b); !ok {
				bigCases = 0
				fail("", msg, corruptCase{File: hex.EncodeToString(b)})
			}
			// sampled bursts, favouring the bytes around every 4096-byte boundary of the data area
			hs := int(b[0])
			for k := 0; k < 120; k++ {
				var pos int
				if k%2 == 0 && len(b) > hs+4096+16 {
					nb := (len(b) - hs - 2) / 4096
					pos = (hs+4096*(1+d.Int(0, nb-1, "bnd")))*8 + d.Int(-200, 200, "bndoff")
				} else {
					pos = d.Int(8, len(b)*8-17, "pos")
				}
				l := d.Int(1, 16, "len")
				pat := uint32(1) | uint32(d.Int(0, 1<<16-1, "pat"))&(1<<uint(l)-1) | 1<<uint(l-1)
				c := corruptCase{File: hex.EncodeToString(b), BitPos: pos, Length: l, Pattern: pat}
				if pos < 8 || !allowed(len(b), pos, l) {
					continue
				}
				rec.Eval("big-files", 1)
				if msg, ok := checkCorrupt(c); !ok {
					bigCases = 0
					fail("", msg, c)
				}
			}
		})

		if hx.Thorough() {
			// every one of the 32768 burst patterns at every position of
			// four short files
			var files [][]byte
			for _, cf := range gen.SmallCorpus(100) {
				if _, err := fit.Decode(bytes.NewReader(cf.Data)); err == nil {
					files = append(files, cf.Data)
				}
			}
			s12 := &fitmodel.Stream{HeaderSize: 12, Proto: 0x10, Recs: []fitmodel.Rec{
				{IsDef: true, Global: 0, Fields: []fitmodel.FieldDef{{Num: 0, Size: 1, Base: 0}, {Num: 1, Size: 2, Base: 0x84}}}, {Raw: []byte{4, 1, 0}},
				{IsDef: true, Local: 1, BigEndian: true, Global: 20, Fields: []fitmodel.FieldDef{{Num: 253, Size: 4, Base: 0x86}, {Num: 3, Size: 1, Base: 2}}},
				{Local: 1, Raw: []byte{0x3B, 0x9A, 0xCA, 0x00, 61}}, {Local: 1, Compressed: true, TimeOffset: 3, Raw: []byte{0x3B, 0x9A, 0xCA, 0x03, 62}},
			}}
			s14 := *s12
			s14.HeaderSize = 14
			s14z := s14
			s14z.HdrCRCZero = true
			files = append(files, s12.Bytes(), s14.Bytes(), s14z.Bytes())
			for i, b := range files {
				if i >= 4 {
					break
				}
				if msg, ok := checkValid(b); !ok {
					rec.Fail("bursts-all", "", msg, corruptCase{File: hex.EncodeToString(b)})
					continue
				}
				best, msg, total := enumerate(rec, b, true, regions)
				rec.Eval("bursts-all", total)
				rec.NonTrivialEnum(total)
				if best != nil {
					rec.Fail("bursts-all", "", msg, *best)
				}
			}
			rec.Exhaustive("all 32768 burst patterns of length <= 16 at every admissible bit position of up to four short files")
		}
		for k, v := range regions {
			rec.Class("burst in "+k, v)
		}
	})
}
