//go:build verif

package c09

import (
	"bytes"
	"encoding/binary"
	"encoding/json"
	"fmt"
	"io"
	"os"
	"os/exec"
	"regexp"
	"runtime"
	"sort"
	"strings"
	"sync"
	"testing"
	"time"

	"github.com/tormoder/fit"
	"pgregory.net/rapid"

	"verif/gen"
	"verif/hx"
	"verif/ops"
	"verif/prof"
)

// Program is a concurrent test program: one op list per goroutine.
type Program struct {
	// Gated: instead of the op lists, run the gated pairs (see gated)
	Gated      bool       `json:"gated_pairs,omitempty"`
	PoolSeed   uint64     `json:"pool_seed"`
	Campaign   string     `json:"campaign"` // A: inputs without accumulating sources, B: with
	GoMaxProcs int        `json:"gomaxprocs"`
	Routines   [][]ops.Op `json:"goroutines"`
}

// accumulating reports whether decoding input i feeds the package-level
// component accumulators (a record with a valid compressed_speed_distance,
// cycles or compressed_accumulated_power that lands in a container).
func accumulating(data []byte) bool {
	fs, _ := fit.DecodeChained(bytes.NewReader(data))
	if f, _ := fit.Decode(bytes.NewReader(data)); f != nil {
		fs = append(fs, f)
	}
	for _, f := range fs {
		if f == nil {
			continue
		}
		var recs []*fit.RecordMsg
		if a, err := f.Activity(); err == nil && a != nil {
			recs = a.Records
		}
		if c, err := f.Course(); err == nil && c != nil {
			recs = c.Records
		}
		for _, r := range recs {
			if r == nil {
				continue
			}
			if r.Cycles != 0xFF || r.CompressedAccumulatedPower != 0xFFFF || len(r.CompressedSpeedDistance) > 0 {
				return true
			}
		}
	}
	return false
}

var raceLogRe = regexp.MustCompile(`log_path=(\S+)`)

func raceLogFile() string {
	m := raceLogRe.FindStringSubmatch(os.Getenv("GORACE"))
	if m == nil {
		return ""
	}
	return fmt.Sprintf("%s.%d", m[1], os.Getpid())
}

func readLog(from int64) (string, int64) {
	p := raceLogFile()
	if p == "" {
		return "", from
	}
	b, err := os.ReadFile(p)
	if err != nil || int64(len(b)) <= from {
		return "", from
	}
	return string(b[from:]), int64(len(b))
}

// classify splits race detector output into reports and says for each whether
// it is exactly finding K1: both access stacks start in the accumulator /
// RecordMsg.expandComponents code.
func classify(log string) (k1, other []string) {
	for _, blk := range strings.Split(log, "WARNING: DATA RACE") {
		if strings.TrimSpace(blk) == "" || !strings.Contains(blk, "goroutine") {
			continue
		}
		tops := topFrames(blk)
		isK1 := len(tops) >= 2
		for _, f := range tops {
			if !strings.Contains(f, "uint32Accumulator).accumulate") && !strings.Contains(f, "RecordMsg).expandComponents") && !strings.Contains(f, "fit.uint32NewAccumulator") {
				isK1 = false
			}
		}
		if isK1 {
			k1 = append(k1, blk)
		} else {
			other = append(other, blk)
		}
	}
	return
}

// topFrames returns the first frame of each access stack of a report.
func topFrames(blk string) []string {
	var out []string
	lines := strings.Split(blk, "\n")
	for i, l := range lines {
		t := strings.TrimSpace(l)
		if (strings.HasPrefix(t, "Write at") || strings.HasPrefix(t, "Read at") || strings.HasPrefix(t, "Previous write at") || strings.HasPrefix(t, "Previous read at")) && i+1 < len(lines) {
			out = append(out, strings.TrimSpace(lines[i+1]))
		}
	}
	return out
}

type opSpan struct {
	kind       string
	start, end time.Time
}

// execute runs the program (all goroutines released together) and returns
// the result hash of every call plus whether two goroutines ran the same op
// kind at overlapping times. Nothing of the library has been called in this
// process before: lazily initialised package state meets its first use
// concurrently.
func execute(pool *ops.Pool, p *Program) (hashes [][]string, overlapped bool) {
	old := runtime.GOMAXPROCS(p.GoMaxProcs)
	defer runtime.GOMAXPROCS(old)
	var wg sync.WaitGroup
	start := make(chan struct{})
	spans := make([][]opSpan, len(p.Routines))
	hashes = make([][]string, len(p.Routines))
	for gi, list := range p.Routines {
		wg.Add(1)
		go func(gi int, list []ops.Op) {
			defer wg.Done()
			<-start
			for _, op := range list {
				t0 := time.Now()
				raw := ops.Run(pool, op, nil)
				got := ops.Hash(raw)
				if v := ops.Verdict(raw); v != "" {
					got = "VERDICT " + v // wrong whatever it returns when run alone
				}
				t1 := time.Now()
				spans[gi] = append(spans[gi], opSpan{op.Kind, t0, t1})
				hashes[gi] = append(hashes[gi], got)
			}
		}(gi, list)
	}
	close(start)
	wg.Wait()
	for i := range spans {
		for j := i + 1; j < len(spans) && !overlapped; j++ {
			for _, a := range spans[i] {
				for _, b := range spans[j] {
					if a.kind == b.kind && a.start.Before(b.end) && b.start.Before(a.end) {
						overlapped = true
					}
				}
			}
		}
	}
	return
}

// gateReader delivers the first half of data, signals started, and delivers
// the rest only after gate is closed: a reader whose input arrives when
// something else in the program has happened.
type gateReader struct {
	data    []byte
	pos     int
	half    int
	started chan struct{}
	gate    chan struct{}
	once    sync.Once
}

func (g *gateReader) Read(p []byte) (int, error) {
	if g.pos >= len(g.data) {
		return 0, io.EOF
	}
	if g.pos >= g.half {
		g.once.Do(func() { close(g.started) })
		<-g.gate
	}
	n := len(p)
	if g.pos < g.half && n > g.half-g.pos {
		n = g.half - g.pos
	}
	n = copy(p[:n], g.data[g.pos:])
	g.pos += n
	return n, nil
}

// gated runs pairs of calls in which call A reads from a reader that pauses in
// the middle of the data until call B - on its own, independent input - has
// returned. Independent calls do not wait for each other: B returns while A
// is paused. It returns descriptions of pairs where B did not.
func gated(pool *ops.Pool) []string {
	var data []byte
	for i, n := range pool.Names {
		if n == "generated stream" && len(pool.Bytes[i]) >= 60 && !accumulating(pool.Bytes[i]) {
			if _, err := fit.Decode(bytes.NewReader(pool.Bytes[i])); err == nil {
				data = pool.Bytes[i]
				break
			}
		}
	}
	if data == nil {
		return nil
	}
	spec := pool.Specs[0]
	as := []struct {
		name string
		run  func(r io.Reader)
	}{
		{"Decode", func(r io.Reader) { fit.Decode(r) }},
		{"Decode with options", func(r io.Reader) { fit.Decode(r, fit.WithUnknownFields(), fit.WithUnknownMessages()) }},
		{"DecodeChained", func(r io.Reader) { fit.DecodeChained(r) }},
		{"CheckIntegrity", func(r io.Reader) { fit.CheckIntegrity(r, false) }},
	}
	bs := []struct {
		name string
		run  func()
	}{
		{"Decode", func() { fit.Decode(bytes.NewReader(data)) }},
		{"DecodeChained", func() { fit.DecodeChained(bytes.NewReader(data)) }},
		{"CheckIntegrity", func() { fit.CheckIntegrity(bytes.NewReader(data), false) }},
		{"DecodeHeaderAndFileID", func() { fit.DecodeHeaderAndFileID(bytes.NewReader(data)) }},
		{"Encode", func() {
			if f, err := gen.BuildFile(spec); err == nil {
				var buf bytes.Buffer
				fit.Encode(&buf, f, binary.LittleEndian)
			}
		}},
	}
	var out []string
	for _, a := range as {
		for _, b := range bs {
			g := &gateReader{data: data, half: len(data) / 2, started: make(chan struct{}), gate: make(chan struct{})}
			doneA, doneB := make(chan struct{}), make(chan struct{})
			go func() { defer close(doneA); a.run(g) }()
			select {
			case <-g.started:
			case <-doneA:
				continue // A never got to the middle of its input
			case <-time.After(10 * time.Second):
				out = append(out, fmt.Sprintf("%s did not reach the middle of its input within 10 s", a.name))
				close(g.gate)
				continue
			}
			go func() { defer close(doneB); b.run() }()
			select {
			case <-doneB:
			case <-time.After(10 * time.Second):
				out = append(out, fmt.Sprintf("%s on an input of its own did not return within 10 s while a %s call was waiting for its reader (calls on independent inputs block each other)", b.name, a.name))
			}
			close(g.gate)
			select {
			case <-doneA:
			case <-time.After(10 * time.Second):
				out = append(out, fmt.Sprintf("%s did not return within 10 s after its reader delivered the rest", a.name))
			}
		}
	}
	out = append(out, manyInFlight(data, spec)...)
	return out
}

// gateWriter blocks in its first Write until gate is closed.
type gateWriter struct {
	buf     bytes.Buffer
	started chan struct{}
	gate    chan struct{}
	once    sync.Once
}

func (g *gateWriter) Write(p []byte) (int, error) {
	g.once.Do(func() { close(g.started); <-g.gate })
	return g.buf.Write(p)
}

// manyInFlight starts n calls of one entry point, each on a reader (or
// writer) of its own that pauses until all n calls are in progress, then lets
// them all continue: however many calls are in progress at the same moment,
// every one returns, with what it returns alone.
func manyInFlight(data []byte, spec *gen.FileSpec) []string {
	alone, _ := fit.Decode(bytes.NewReader(data))
	wantDigest := prof.Digest(alone, prof.DigestOpts{})
	var wantEnc []byte
	if f, err := gen.BuildFile(spec); err == nil {
		var buf bytes.Buffer
		if fit.Encode(&buf, f, binary.LittleEndian) == nil {
			wantEnc = buf.Bytes()
		}
	}
	entries := []struct {
		name string
		run  func(r io.Reader) string
	}{
		{"Decode", func(r io.Reader) string {
			f, err := fit.Decode(r)
			if err != nil {
				return "error " + err.Error()
			}
			if d := prof.Digest(f, prof.DigestOpts{}); d != wantDigest {
				return "a different File than alone"
			}
			return ""
		}},
		{"DecodeChained", func(r io.Reader) string {
			fs, err := fit.DecodeChained(r)
			if err != nil || len(fs) != 1 {
				return fmt.Sprintf("%d files, error %v", len(fs), err)
			}
			if d := prof.Digest(fs[0], prof.DigestOpts{}); d != wantDigest {
				return "a different File than alone"
			}
			return ""
		}},
		{"CheckIntegrity", func(r io.Reader) string {
			if err := fit.CheckIntegrity(r, false); err != nil {
				return "error " + err.Error()
			}
			return ""
		}},
		{"DecodeHeaderAndFileID", func(r io.Reader) string {
			if _, _, err := fit.DecodeHeaderAndFileID(r); err != nil {
				return "error " + err.Error()
			}
			return ""
		}},
	}
	var out []string
	for _, n := range []int{130, 1030} {
		for _, e := range entries {
			gate := make(chan struct{})
			results := make([]string, n)
			started := make([]chan struct{}, n)
			var wg sync.WaitGroup
			for i := 0; i < n; i++ {
				half := len(data) / 2
				if e.name == "DecodeHeaderAndFileID" {
					half = 13
				}
				g := &gateReader{data: data, half: half, started: make(chan struct{}), gate: gate}
				started[i] = g.started
				wg.Add(1)
				go func(i int) { defer wg.Done(); results[i] = e.run(g) }(i)
			}
			if msg := releaseAndWait(started, gate, &wg); msg != "" {
				out = append(out, fmt.Sprintf("%d %s calls on independent readers in progress at the same time: %s", n, e.name, msg))
				continue
			}
			for i, r := range results {
				if r != "" {
					out = append(out, fmt.Sprintf("%d %s calls on independent readers in progress at the same time: call %d returned %s", n, e.name, i, r))
					break
				}
			}
		}
		if wantEnc == nil {
			continue
		}
		gate := make(chan struct{})
		results := make([]string, n)
		started := make([]chan struct{}, n)
		var wg sync.WaitGroup
		for i := 0; i < n; i++ {
			g := &gateWriter{started: make(chan struct{}), gate: gate}
			started[i] = g.started
			wg.Add(1)
			go func(i int) {
				defer wg.Done()
				f, err := gen.BuildFile(spec)
				if err != nil {
					close(g.started)
					return
				}
				if err := fit.Encode(g, f, binary.LittleEndian); err != nil {
					results[i] = "error " + err.Error()
				} else if !bytes.Equal(g.buf.Bytes(), wantEnc) {
					results[i] = "different bytes than alone"
				}
			}(i)
		}
		if msg := releaseAndWait(started, gate, &wg); msg != "" {
			out = append(out, fmt.Sprintf("%d Encode calls on independent writers in progress at the same time: %s", n, msg))
			continue
		}
		for i, r := range results {
			if r != "" {
				out = append(out, fmt.Sprintf("%d Encode calls on independent writers in progress at the same time: call %d returned %s", n, i, r))
				break
			}
		}
	}
	return out
}

// releaseAndWait waits until every call has reached its pause, closes the
// gate and waits for all calls to return.
func releaseAndWait(started []chan struct{}, gate chan struct{}, wg *sync.WaitGroup) string {
	deadline := time.After(20 * time.Second)
	for i, ch := range started {
		select {
		case <-ch:
		case <-deadline:
			close(gate)
			return fmt.Sprintf("call %d did not reach its reader's pause within 20 s", i)
		}
	}
	close(gate)
	all := make(chan struct{})
	go func() { wg.Wait(); close(all) }()
	select {
	case <-all:
		return ""
	case <-time.After(20 * time.Second):
		return "not all of them returned within 20 s after their input became available (calls wait for each other)"
	}
}

type workerReply struct {
	Mismatch   []string `json:"mismatch"`
	Overlapped bool     `json:"overlapped"`
	Log        string   `json:"log"`
	Err        string   `json:"err,omitempty"`
}

// The concurrent programs run in a worker process (this test binary
// re-executed), because the testing package fails any test function during
// which the race detector reported something, and campaign B is expected to
// report finding K1. The worker builds the same pool and its own sequential
// baseline, executes each program it is sent and returns the mismatches and
// the race detector output produced meanwhile.
func TestMain(m *testing.M) {
	if os.Getenv("VERIF_C09_WORKER") == "" {
		os.Exit(m.Run())
	}
	var seed uint64
	fmt.Sscan(os.Getenv("VERIF_C09_WORKER"), &seed)
	var pool *ops.Pool
	if pf := os.Getenv("VERIF_C09_POOL"); pf != "" {
		if data, err := os.ReadFile(pf); err == nil {
			pool = &ops.Pool{}
			if json.Unmarshal(data, pool) != nil {
				pool = nil
			}
		}
	}
	if pool == nil {
		pool = ops.BuildPool(int(seed))
	}
	_, logPos := readLog(0)
	dec := json.NewDecoder(os.Stdin)
	enc := json.NewEncoder(os.Stdout)
	var p Program
	if err := dec.Decode(&p); err != nil {
		os.Exit(0)
	}
	var r workerReply
	if p.Gated {
		r.Mismatch = gated(pool)
		r.Overlapped = true
		r.Log, logPos = readLog(logPos)
		enc.Encode(&r)
		if lp := raceLogFile(); lp != "" {
			os.Remove(lp)
		}
		os.Exit(0)
	}
	// concurrent run first, sequential baseline afterwards
	hashes, overlapped := execute(pool, &p)
	r.Overlapped = overlapped
	r.Log, logPos = readLog(logPos)
	base := map[string]string{}
	for gi, list := range p.Routines {
		for oi, op := range list {
			want, ok := base[op.String()]
			if !ok {
				want = ops.Hash(ops.Run(pool, op, nil))
				base[op.String()] = want
			}
			if strings.HasPrefix(hashes[gi][oi], "VERDICT ") {
				r.Mismatch = append(r.Mismatch, fmt.Sprintf("goroutine %d: %v: %s", gi, op, strings.ToLower(hashes[gi][oi][8:])))
			} else if hashes[gi][oi] != want {
				r.Mismatch = append(r.Mismatch, fmt.Sprintf("goroutine %d: %v returned a different result than when run alone", gi, op))
			}
		}
	}
	sort.Strings(r.Mismatch)
	enc.Encode(&r)
	if lp := raceLogFile(); lp != "" {
		os.Remove(lp)
	}
	os.Exit(0)
}

type worker struct {
	cmd *exec.Cmd
	enc *json.Encoder
	dec *json.Decoder
	in  io.WriteCloser
}

var poolFile string

func startWorker(seed uint64) (*worker, error) {
	cmd := exec.Command(os.Args[0])
	if poolFile != "" {
		cmd.Env = append(cmd.Env, "VERIF_C09_POOL="+poolFile)
	}
	gorace := os.Getenv("GORACE")
	if !strings.Contains(gorace, "exitcode=") {
		gorace += " exitcode=0"
	}
	cmd.Env = append(append(os.Environ(), cmd.Env...), fmt.Sprintf("VERIF_C09_WORKER=%d", seed), "VERIF_OUT=", "GORACE="+gorace)
	in, err := cmd.StdinPipe()
	if err != nil {
		return nil, err
	}
	out, err := cmd.StdoutPipe()
	if err != nil {
		return nil, err
	}
	cmd.Stderr = os.Stderr
	if err := cmd.Start(); err != nil {
		return nil, err
	}
	return &worker{cmd: cmd, enc: json.NewEncoder(in), dec: json.NewDecoder(out), in: in}, nil
}

func (w *worker) run(p *Program) (*workerReply, error) {
	if err := w.enc.Encode(p); err != nil {
		return nil, err
	}
	var r workerReply
	if err := w.dec.Decode(&r); err != nil {
		return nil, err
	}
	return &r, nil
}

func (w *worker) stop() {
	w.in.Close()
	w.cmd.Wait()
}

func TestC09(t *testing.T) {
	hx.Main(t, "C09", func(rec *hx.Recorder) {
		seed := hx.Seed()
		var replay *Program
		var rp0 *hx.Replay
		if rp, ok := hx.LoadReplay(); ok {
			rp0 = rp
			replay = &Program{}
			json.Unmarshal(rp.Case, replay)
			if replay.PoolSeed != 0 {
				seed = replay.PoolSeed
			}
		}
		if raceLogFile() == "" {
			rec.Note("GORACE log_path not set: race reports cannot be collected")
		}
		pool := ops.BuildPool(int(seed))
		if dir := os.Getenv("VERIF_BUILD"); dir != "" {
			// workers load the pool from a file instead of regenerating it
			if data, err := json.Marshal(pool); err == nil {
				poolFile = fmt.Sprintf("%s/c09pool-%d.json", dir, os.Getpid())
				if os.WriteFile(poolFile, data, 0o644) == nil {
					defer os.Remove(poolFile)
				} else {
					poolFile = ""
				}
			}
		}
		// partition the decode inputs
		var plain, accum []int
		for i, b := range pool.Bytes {
			if accumulating(b) {
				accum = append(accum, i)
			} else {
				plain = append(plain, i)
			}
		}
		rec.Class("pool inputs without accumulating sources", int64(len(plain)))
		rec.Class("pool inputs with accumulating sources", int64(len(accum)))
		runProgram := func(p *Program, sub string) (string, string, bool) {
			// a fresh worker process per program: the program is the first
			// use of the library in that process
			w, err := startWorker(seed)
			if err != nil {
				return "HARNESS", "cannot start the worker process: " + err.Error(), false
			}
			reply, err := w.run(p)
			w.stop()
			if err != nil {
				return "HARNESS", "worker process died: " + err.Error(), false
			}
			mismatch, overlapped := reply.Mismatch, reply.Overlapped
			k1, other := classify(reply.Log)
			if overlapped {
				rec.Class("program with overlapping same-kind calls", 1)
			}
			if len(other) > 0 {
				return "", fmt.Sprintf("data race reported (campaign %s, %d goroutines):\n%s", p.Campaign, len(p.Routines), trunc(other[0])), false
			}
			if len(k1) > 0 {
				if p.Campaign == "A" {
					return "K1:package-level-accumulators", "race in the component accumulators although no input feeds them:\n" + trunc(k1[0]), false
				}
				if !hx.Open("K1") {
					return "K1:package-level-accumulators", "data race in the package-level component accumulators:\n" + trunc(k1[0]), false
				}
				rec.Excluded("K1", int64(len(k1)))
				rec.Known("K1", "race detector: concurrent Decode calls race in "+strings.Join(topFrames(k1[0]), " / "))
			}
			if len(mismatch) > 0 {
				return "", strings.Join(mismatch, "\n"), false
			}
			return "", "", true
		}

		if replay != nil {
			rec.Eval("replay", 50)
			for i := 0; i < 50; i++ {
				if sig, msg, ok := runProgram(replay, "replay"); !ok {
					rec.Fail(rp0.Sub, sig, msg, replay)
					return
				}
			}
			return
		}

		draw := func(d gen.D, campaign string) *Program {
			p := &Program{PoolSeed: seed, Campaign: campaign, GoMaxProcs: []int{2, 4, 16}[d.Int(0, 2, "procs")]}
			inputs := plain
			if campaign == "B" {
				inputs = accum
			}
			g := d.Int(2, 16, "goroutines")
			for i := 0; i < g; i++ {
				n := d.Int(5, 40, "nops")
				var list []ops.Op
				for j := 0; j < n; j++ {
					k := ops.OpKinds[d.Int(0, len(ops.OpKinds)-1, "kind")]
					op := ops.Op{Kind: k}
					if strings.HasPrefix(k, "encode") {
						op.Idx = d.Int(0, len(pool.Specs)-1, "spec")
						op.BE = d.Bool("be")
					} else {
						if len(inputs) == 0 {
							continue
						}
						op.Idx = inputs[d.Int(0, len(inputs)-1, "input")]
					}
					list = append(list, op)
				}
				p.Routines = append(p.Routines, list)
			}
			return p
		}

		// focused programs: all goroutines of a program work on inputs of one
		// family (local timestamps, generated streams, rejected inputs,
		// chains, repository files, accumulating streams), so that state
		// shared between calls on similar inputs is hit from several
		// goroutines in every run, not only when the random programs
		// happen to collide
		family := func(name string) string {
			switch {
			case strings.HasPrefix(name, "local timestamp"):
				return "local timestamps"
			case strings.Contains(name, "header file cut") || strings.HasPrefix(name, "illegal header") || strings.HasPrefix(name, "wrong file CRC"):
				return "rejected inputs"
			case strings.HasPrefix(name, "twin definition"):
				return "twin definitions"
			case name == "generated stream" || name == "accumulating stream" || name == "chain":
				return name + "s"
			}
			return "repository files"
		}
		isAccum := map[int]bool{}
		for _, i := range accum {
			isAccum[i] = true
		}
		fams := map[string][]int{}
		var famOrder []string
		for i, n := range pool.Names {
			k := family(n) + map[bool]string{false: "|A", true: "|B"}[isAccum[i]]
			if fams[k] == nil {
				famOrder = append(famOrder, k)
			}
			fams[k] = append(fams[k], i)
		}
		sort.Strings(famOrder)
		focused := rapid.Custom(func(rt *rapid.T) []*Program {
			d := gen.D{T: rt}
			var out []*Program
			for _, k := range famOrder {
				inputs := fams[k]
				p := &Program{PoolSeed: seed, Campaign: k[len(k)-1:], GoMaxProcs: 8}
				for g := 0; g < 8; g++ {
					var list []ops.Op
					for j := 0; j < 10; j++ {
						kind := ops.OpKinds[d.Int(0, len(ops.OpKinds)-1, "kind")]
						if strings.HasPrefix(kind, "encode") {
							kind = "decode"
						}
						list = append(list, ops.Op{Kind: kind, Idx: inputs[d.Int(0, len(inputs)-1, "input")]})
					}
					p.Routines = append(p.Routines, list)
				}
				out = append(out, p)
			}
			return out
		}).Example(int(seed))
		for i, p := range focused {
			rec.Eval("focused", 1)
			rec.NonTrivial(hx.FP(fmt.Sprint(p)))
			rec.Class("focused program: "+famOrder[i][:len(famOrder[i])-2], 1)
			if sig, msg, ok := runProgram(p, "focused"); !ok {
				rec.Fail("focused-"+p.Campaign, sig, "all goroutines on the input family '"+famOrder[i][:len(famOrder[i])-2]+"': "+msg, p)
				break
			}
		}

		// every kind: each of 8 goroutines makes every kind of call once (in
		// a rotated order, on inputs without accumulating sources), so that
		// every kind of call runs on several goroutines in every run
		{
			var plain []int
			for i := range pool.Bytes {
				if !isAccum[i] {
					plain = append(plain, i)
				}
			}
			// round 0: inputs spread over the pool; then one round per
			// hand-made pool input family (all goroutines on those inputs),
			// with the encode calls on the hand-made Files at the end of the
			// pool
			var special [][]int
			byName := map[string][]int{}
			for _, i := range plain {
				if n := pool.Names[i]; strings.HasPrefix(n, "compressed headers on messages") {
					byName[n] = append(byName[n], i)
				}
			}
			for _, l := range byName {
				special = append(special, l)
			}
			rounds := append([][]int{plain}, special...)
			for ri, inputs := range rounds {
				if len(inputs) == 0 {
					continue
				}
				p := &Program{PoolSeed: seed, Campaign: "A", GoMaxProcs: 8}
				for g := 0; g < 8; g++ {
					var list []ops.Op
					for j := range ops.OpKinds {
						kind := ops.OpKinds[(j+g)%len(ops.OpKinds)]
						op := ops.Op{Kind: kind, Idx: inputs[(g*7+j)%len(inputs)]}
						if strings.HasPrefix(kind, "encode") {
							op.Idx = (g + j) % len(pool.Specs)
							if ri > 0 {
								// the last eight Files of the pool are hand-made
								op.Idx = len(pool.Specs) - 1 - (g+j)%8
							}
							op.BE = (g+j)%2 == 1
						}
						list = append(list, op)
					}
					p.Routines = append(p.Routines, list)
				}
				rec.Eval("every-kind", 1)
				rec.NonTrivial(hx.FP(fmt.Sprint("every-kind", ri)))
				if sig, msg, ok := runProgram(p, "every-kind"); !ok {
					rec.Fail("every-kind", sig, "every kind of call on each of 8 goroutines: "+msg, p)
					break
				}
			}
		}

		// gated pairs: a call paused in the middle of its input must not keep
		// a call on another input from returning
		{
			gp := &Program{Gated: true, PoolSeed: seed, Campaign: "A", GoMaxProcs: 4}
			rec.Eval("gated", 20)
			rec.NonTrivial(hx.FP("gated"))
			if sig, msg, ok := runProgram(gp, "gated"); !ok {
				rec.Fail("gated", sig, msg, gp)
			}
		}

		for _, campaign := range []string{"A", "B"} {
			campaign := campaign
			hx.RapidCheck(t, rec, "programs-"+campaign, func(rt *rapid.T, fail func(string, string, any)) {
				p := draw(gen.D{T: rt}, campaign)
				nops := 0
				for _, l := range p.Routines {
					nops += len(l)
				}
				rec.Eval("programs-"+campaign, 1)
				rec.Class("calls executed concurrently", int64(nops))
				sig, msg, ok := runProgram(p, "programs-"+campaign)
				rec.NonTrivial(hx.FP(fmt.Sprint(p)))
				if rec.WantSample() && len(p.Routines) <= 3 {
					rec.Sample(p)
				}
				if !ok {
					fail(sig, msg, p)
				}
			})
		}
	})
}

func trunc(s string) string {
	if len(s) > 2500 {
		return s[:2500] + "…"
	}
	return s
}
