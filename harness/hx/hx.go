// Package hx holds the harness plumbing shared by all property checks:
// tier/seed/environment access, counters, samples, failure records, replay
// files and the result file the driver turns into evidence.
package hx

import (
	"crypto/sha256"
	"encoding/binary"
	"encoding/hex"
	"encoding/json"
	"fmt"
	"hash/fnv"
	"os"
	"path/filepath"
	"sort"
	"strconv"
	"strings"
	"sync"
	"testing"

	"pgregory.net/rapid"
)

// Tier returns "quick" or "thorough".
func Tier() string {
	if os.Getenv("VERIF_TIER") == "thorough" {
		return "thorough"
	}
	return "quick"
}

// Thorough reports Tier()=="thorough".
func Thorough() bool { return Tier() == "thorough" }

// Pick returns q in the quick tier and t in the thorough tier. The
// environment variable VERIF_SCALE (a float, default 1) scales both.
func Pick(q, t int) int {
	n := q
	if Thorough() {
		n = t
	}
	if s := os.Getenv("VERIF_SCALE"); s != "" {
		if f, err := strconv.ParseFloat(s, 64); err == nil && f > 0 {
			n = int(float64(n) * f)
			if n < 1 {
				n = 1
			}
		}
	}
	return n
}

// Seed returns VERIF_SEED (default 1; 0 is remapped to 1).
func Seed() uint64 {
	s, err := strconv.ParseUint(os.Getenv("VERIF_SEED"), 10, 64)
	if err != nil || s == 0 {
		return 1
	}
	return s
}

// Shard returns (index, count) of this process among parallel shards.
func Shard() (int, int) {
	i, _ := strconv.Atoi(os.Getenv("VERIF_SHARD"))
	n, _ := strconv.Atoi(os.Getenv("VERIF_SHARDS"))
	if n <= 0 {
		return 0, 1
	}
	return i, n
}

// FirstShard reports whether this process is shard 0: deterministic
// enumerations run only there, so that a sharded run counts every enumerated
// cell once.
func FirstShard() bool {
	if os.Getenv("VERIF_VARIANT") != "" {
		// an environment variant (another TZ, ...) runs the enumerations
		// again under that environment
		return true
	}
	i, _ := Shard()
	return i == 0
}

// VerifDir is the /verif root.
func VerifDir() string {
	if d := os.Getenv("VERIF_DIR"); d != "" {
		return d
	}
	return "/verif"
}

// RepoDir is the repository under test.
func RepoDir() string {
	if d := os.Getenv("VERIF_REPO"); d != "" {
		return d
	}
	return "/repo"
}

// Open reports whether the finding with this id is listed as open (not fixed)
// in known_findings.json; the driver passes the list in VERIF_OPEN_FINDINGS.
func Open(id string) bool {
	for _, f := range strings.Split(os.Getenv("VERIF_OPEN_FINDINGS"), ",") {
		if f == id {
			return true
		}
	}
	return false
}

// Failure is one property violation found by a check.
type Failure struct {
	Sub    string `json:"sub"`    // sub-check name
	Sig    string `json:"sig"`    // signature ("" = not matching any known finding)
	Msg    string `json:"msg"`    // human readable
	Replay string `json:"replay"` // path of the replay file
}

// Recorder accumulates what a check covered.
type Recorder struct {
	mu          sync.Mutex
	Property    string
	evals       int64
	nontriv     map[uint64]struct{}
	nontrivEnum int64 // distinct by construction (enumerations)
	classes     map[string]int64
	samples     []any
	maxSamples  int
	failures    []Failure
	known       map[string]string // finding id -> description of reproduction
	excluded    map[string]int64
	undecided   int64
	exhaustive  []string
	notes       []string
	subs        map[string]int64
}

// NewRecorder creates a recorder for a property.
func NewRecorder(prop string) *Recorder {
	return &Recorder{
		Property:   prop,
		nontriv:    map[uint64]struct{}{},
		classes:    map[string]int64{},
		known:      map[string]string{},
		excluded:   map[string]int64{},
		subs:       map[string]int64{},
		maxSamples: 12,
	}
}

// Eval counts n evaluated cases for sub-check sub.
func (r *Recorder) Eval(sub string, n int64) {
	r.mu.Lock()
	r.evals += n
	r.subs[sub] += n
	r.mu.Unlock()
}

// NonTrivial records a non-trivial case by fingerprint (distinctness is by
// fingerprint).
func (r *Recorder) NonTrivial(fp uint64) {
	r.mu.Lock()
	if len(r.nontriv) < 4_000_000 {
		r.nontriv[fp] = struct{}{}
	}
	r.mu.Unlock()
}

// NonTrivialEnum counts n non-trivial cases that are distinct by construction
// (cells of an enumeration).
func (r *Recorder) NonTrivialEnum(n int64) {
	r.mu.Lock()
	r.nontrivEnum += n
	r.mu.Unlock()
}

// Class adds n to a label of the generator histogram.
func (r *Recorder) Class(label string, n int64) {
	r.mu.Lock()
	r.classes[label] += n
	r.mu.Unlock()
}

// Classes merges a label map.
func (r *Recorder) Classes(m map[string]int) {
	r.mu.Lock()
	for k, v := range m {
		r.classes[k] += int64(v)
	}
	r.mu.Unlock()
}

// Sample keeps up to a dozen actual cases.
func (r *Recorder) Sample(v any) {
	r.mu.Lock()
	if len(r.samples) < r.maxSamples {
		r.samples = append(r.samples, v)
	}
	r.mu.Unlock()
}

// WantSample reports whether more samples are wanted (to avoid building them).
func (r *Recorder) WantSample() bool {
	r.mu.Lock()
	defer r.mu.Unlock()
	return len(r.samples) < r.maxSamples
}

// Excluded counts cases (or comparisons) skipped because of an open finding.
func (r *Recorder) Excluded(id string, n int64) {
	r.mu.Lock()
	r.excluded[id] += n
	r.mu.Unlock()
}

// Undecided counts comparisons the property text does not decide.
func (r *Recorder) Undecided(n int64) {
	r.mu.Lock()
	r.undecided += n
	r.mu.Unlock()
}

// Exhaustive notes a sub-space that was enumerated completely.
func (r *Recorder) Exhaustive(what string) {
	r.mu.Lock()
	r.exhaustive = append(r.exhaustive, what)
	r.mu.Unlock()
}

// Note adds a free-text remark to the evidence.
func (r *Recorder) Note(s string) {
	r.mu.Lock()
	r.notes = append(r.notes, s)
	r.mu.Unlock()
}

// Known records that an open known finding was reproduced.
func (r *Recorder) Known(id, what string) {
	r.mu.Lock()
	r.known[id] = what
	r.mu.Unlock()
}

// Fail records a violation. replay is serialised to a replay file.
func (r *Recorder) Fail(sub, sig, msg string, replay any) {
	path := r.SaveReplay(sub, replay)
	r.mu.Lock()
	defer r.mu.Unlock()
	for _, f := range r.failures {
		if f.Sub == sub && f.Sig == sig && f.Replay == path {
			return
		}
	}
	if len(r.failures) < 50 {
		r.failures = append(r.failures, Failure{Sub: sub, Sig: sig, Msg: trunc(msg, 2000), Replay: path})
	}
}

// Failed reports whether any failure was recorded.
func (r *Recorder) Failed() bool {
	r.mu.Lock()
	defer r.mu.Unlock()
	return len(r.failures) > 0
}

func trunc(s string, n int) string {
	if len(s) > n {
		return s[:n] + "…"
	}
	return s
}

// Replay is the on-disk form of a failing case.
type Replay struct {
	Property string          `json:"property"`
	Sub      string          `json:"sub"`
	Case     json.RawMessage `json:"case"`
	// Env: process environment the case failed under when that was not the
	// default one ("TZ=America/St_Johns"); the driver sets it for a replay
	Env string `json:"env,omitempty"`
}

// SaveReplay writes a replay file and returns its path.
func (r *Recorder) SaveReplay(sub string, c any) string {
	raw, err := json.Marshal(c)
	if err != nil {
		raw, _ = json.Marshal(fmt.Sprint(c))
	}
	rp := Replay{Property: r.Property, Sub: sub, Case: raw, Env: os.Getenv("VERIF_VARIANT")}
	data, _ := json.MarshalIndent(rp, "", " ")
	sum := sha256.Sum256(data)
	dir := filepath.Join(VerifDir(), "replays", r.Property)
	if d := os.Getenv("VERIF_REPLAY_DIR"); d != "" {
		dir = d
	}
	_ = os.MkdirAll(dir, 0o755)
	path := filepath.Join(dir, sub+"-"+hex.EncodeToString(sum[:6])+".json")
	_ = os.WriteFile(path, data, 0o644)
	return path
}

// LoadReplay reads the replay named by VERIF_REPLAY, if any.
func LoadReplay() (*Replay, bool) {
	p := os.Getenv("VERIF_REPLAY")
	if p == "" {
		return nil, false
	}
	data, err := os.ReadFile(p)
	if err != nil {
		fmt.Fprintln(os.Stderr, "cannot read replay:", err)
		os.Exit(2)
	}
	var rp Replay
	if err := json.Unmarshal(data, &rp); err != nil {
		fmt.Fprintln(os.Stderr, "cannot parse replay:", err)
		os.Exit(2)
	}
	return &rp, true
}

type result struct {
	Property    string            `json:"property"`
	Evaluations int64             `json:"evaluations"`
	NonTrivial  int64             `json:"distinct_nontrivial"`
	NonTrivEnum int64             `json:"nontrivial_enum"`
	Classes     map[string]int64  `json:"classes"`
	Subs        map[string]int64  `json:"subchecks"`
	Samples     []any             `json:"samples"`
	Failures    []Failure         `json:"failures"`
	Known       map[string]string `json:"known"`
	Excluded    map[string]int64  `json:"excluded"`
	Undecided   int64             `json:"undecided"`
	Exhaustive  []string          `json:"exhaustive"`
	Notes       []string          `json:"notes"`
	Complete    bool              `json:"complete"`
}

// Flush writes the result file named by VERIF_OUT. complete says the test
// function ran to its end.
func (r *Recorder) Flush(complete bool) {
	r.mu.Lock()
	defer r.mu.Unlock()
	res := result{
		Property:    r.Property,
		Evaluations: r.evals,
		NonTrivial:  int64(len(r.nontriv)) + r.nontrivEnum,
		NonTrivEnum: r.nontrivEnum,
		Classes:     r.classes,
		Subs:        r.subs,
		Samples:     r.samples,
		Failures:    r.failures,
		Known:       r.known,
		Excluded:    r.excluded,
		Undecided:   r.undecided,
		Exhaustive:  r.exhaustive,
		Notes:       r.notes,
		Complete:    complete,
	}
	sort.Strings(res.Exhaustive)
	out := os.Getenv("VERIF_OUT")
	if out == "" {
		data, _ := json.MarshalIndent(res, "", " ")
		fmt.Fprintln(os.Stderr, trunc(string(data), 6000))
		return
	}
	data, err := json.Marshal(res)
	if err != nil {
		// a sample could not be marshalled; drop samples
		res.Samples = []any{"(samples not serialisable)"}
		data, _ = json.Marshal(res)
	}
	fpb := make([]byte, 0, 8*len(r.nontriv))
	for fp := range r.nontriv {
		fpb = binary.LittleEndian.AppendUint64(fpb, fp)
	}
	_ = os.WriteFile(out+".fp", fpb, 0o644)
	tmp := out + ".tmp"
	_ = os.WriteFile(tmp, data, 0o644)
	_ = os.Rename(tmp, out)
}

// FP is a 64-bit fingerprint of a string.
func FP(s string) uint64 {
	h := fnv.New64a()
	h.Write([]byte(s))
	return h.Sum64()
}

// FPBytes is a 64-bit fingerprint of bytes.
func FPBytes(b []byte) uint64 {
	h := fnv.New64a()
	h.Write(b)
	return h.Sum64()
}

// Hex renders bytes, shortening long inputs.
func Hex(b []byte) string {
	if len(b) <= 160 {
		return hex.EncodeToString(b)
	}
	return hex.EncodeToString(b[:120]) + fmt.Sprintf("…(%d bytes)…", len(b)) + hex.EncodeToString(b[len(b)-20:])
}

// LastFailure holds the most recent failing case of a rapid property; rapid
// re-runs the minimal case last, so after Check returns it is the shrunk one.
type LastFailure struct {
	mu  sync.Mutex
	set bool
	Sig string
	Msg string
	Rep any
}

// Set stores a failure description.
func (l *LastFailure) Set(sig, msg string, rep any) {
	l.mu.Lock()
	l.set, l.Sig, l.Msg, l.Rep = true, sig, msg, rep
	l.mu.Unlock()
}

// RapidCheck runs prop under rapid as sub-test name; if it fails, the last
// failure stored through fail() is recorded in rec. prop reports a failure by
// calling the fail function it is given, which stores the case and aborts the
// rapid run.
func RapidCheck(t *testing.T, rec *Recorder, name string, prop func(rt *rapid.T, fail func(sig, msg string, rep any))) {
	var last LastFailure
	ok := t.Run(name, func(t *testing.T) {
		rapid.Check(t, func(rt *rapid.T) {
			prop(rt, func(sig, msg string, rep any) {
				last.Set(sig, msg, rep)
				rt.Fatalf("%s", trunc(msg, 1500))
			})
		})
	})
	if !ok {
		last.mu.Lock()
		defer last.mu.Unlock()
		if last.set {
			rec.Fail(name, last.Sig, last.Msg, last.Rep)
		} else {
			// rapid itself failed (panic in harness, generator health):
			// not a property verdict.
			rec.Note("sub-check " + name + " failed without a recorded case (harness problem)")
			rec.mu.Lock()
			rec.failures = append(rec.failures, Failure{Sub: name, Sig: "HARNESS", Msg: "rapid run failed without a recorded case"})
			rec.mu.Unlock()
		}
	}
}

// Main wraps a test function body: creates the recorder, runs body, flushes.
func Main(t *testing.T, prop string, body func(rec *Recorder)) {
	rec := NewRecorder(prop)
	complete := false
	defer func() {
		rec.Flush(complete)
	}()
	body(rec)
	complete = true
}
