//go:build verif

package oracle

import (
	"fmt"
	"reflect"
	"strconv"

	"github.com/tormoder/fit"

	"verif/fitmodel"
	"verif/prof"
)

// FromMsg turns a message struct into the model form (values as they are).
func FromMsg(msg reflect.Value) *fitmodel.IMsg {
	msg = reflect.Indirect(msg)
	num, ok := prof.MsgNumOfType(msg.Type().Name())
	if !ok {
		return nil
	}
	mi := prof.Table().Msgs[num]
	m := &fitmodel.IMsg{Global: num, Info: mi}
	m.Vals = prof.MsgVals(msg)
	m.Und = make([]bool, len(m.Vals))
	m.OnWire = make([]bool, len(m.Vals))
	for i := range m.Vals {
		fi := mi.BySIdx[i]
		if fi == nil {
			m.Und[i] = true
			continue
		}
		m.OnWire[i] = !Normalize(m.Vals[i], fi).Equal(fitmodel.InvalidVal(fi))
	}
	return m
}

// Normalize maps a field value to the representative of its equivalence
// class under the round-trip relations of C06/C07: arrays without trailing
// invalid elements, local times as their wall-clock reading.
func Normalize(v fitmodel.Val, fi *fitmodel.FieldInfo) fitmodel.Val {
	switch {
	case fi.Kind == fitmodel.KindTimeLocal && v.K == 't':
		wall := v.I + int64(v.Off)
		if strconv.IntSize == 32 {
			// Where int has 32 bits a time.FixedZone cannot lie 2^31 s or
			// more from UTC, so a local time that far from the file's
			// reference timestamp has no representation there: in the
			// GOARCH=386 run of the checks wall-clock readings are compared
			// modulo 2^32 s (the stored 32-bit value is what is compared).
			wall = int64(fitmodel.FitEpochUnix) + int64(uint32(wall-int64(fitmodel.FitEpochUnix)))
		}
		return fitmodel.T(wall, 0)
	case v.K == 'a':
		inv := fitmodel.ScalarInvalid(fitmodel.MustBase(fi.Base))
		e := v.Elems
		for len(e) > 0 && e[len(e)-1].Equal(inv) {
			e = e[:len(e)-1]
		}
		return fitmodel.Arr(e)
	}
	return v
}

// FileExpect builds the expectation for decoding the encoding of in: same
// slots, same messages, values normalised, component expansion applied to
// messages in container slots (in slot order = stream order of the encoder).
func FileExpect(in *fit.File) *Expected { return fileExpect(in, false, true) }

// FileSame is the expectation "the same content" (values cut to the profile's
// fixed lengths, no component re-derivation): relation of C07.
func FileSame(in *fit.File) *Expected { return fileExpect(in, true, false) }

func fileExpect(in *fit.File, trunc, expand bool) *Expected {
	ft := in.Type()
	e := &Expected{FileType: ft, Slots: map[string][]*fitmodel.IMsg{}, Exp: map[*fitmodel.IMsg]fitmodel.Expansion{}, Labels: map[string]int{}}
	e.SlotList = append(prof.FileSlots(), prof.Slots(ft)...)
	acc := fitmodel.NewAccState()
	for _, s := range e.SlotList {
		k := slotKey(s)
		e.Slots[k] = nil
		for _, mv := range prof.SlotMsgs(in, s) {
			if !mv.IsValid() {
				continue
			}
			m := FromMsg(mv)
			if m == nil {
				continue
			}
			for i, fi := range m.Info.BySIdx {
				if fi != nil {
					if trunc {
						m.Vals[i] = TruncateToProfile(m.Vals[i], fi)
					}
					m.Vals[i] = Normalize(m.Vals[i], fi)
				}
			}
			if expand && !s.InFile && fitmodel.ExpandsComponents(m.Global) {
				ex := fitmodel.Expand(m, acc)
				e.Exp[m] = ex
				for _, l := range ex.Labels {
					e.Labels[l]++
				}
			}
			e.Slots[k] = append(e.Slots[k], m)
		}
	}
	return e
}

// CompareNorm is Compare with both sides normalised.
func CompareNorm(f *fit.File, e *Expected) (diffs []Diff, compared int) {
	for _, s := range e.SlotList {
		k := slotKey(s)
		want := e.Slots[k]
		got := prof.SlotMsgs(f, s)
		if len(got) != len(want) {
			diffs = append(diffs, Diff{Slot: k, Index: -1, Field: "(count)", Got: fmt.Sprint(len(got)), Want: fmt.Sprint(len(want))})
			continue
		}
		for i := range want {
			if !got[i].IsValid() {
				diffs = append(diffs, Diff{Slot: k, Index: i, Field: "(message)", Got: "nil", Want: want[i].Info.Name})
				continue
			}
			ex := e.Exp[want[i]]
			isAcc := map[int]bool{}
			for _, j := range ex.AccDst {
				isAcc[j] = true
			}
			isDst := map[int]bool{}
			for _, j := range ex.Touched {
				isDst[j] = true
			}
			for j := 0; j < got[i].NumField(); j++ {
				fi := want[i].Info.BySIdx[j]
				if fi == nil || want[i].Und[j] {
					continue
				}
				compared++
				g := Normalize(prof.FromReflect(got[i].Field(j)), fi)
				w := Normalize(want[i].Vals[j], fi)
				if !g.Equal(w) {
					diffs = append(diffs, Diff{Slot: k, Index: i, Field: fi.Name, Got: g.String(), Want: w.String(), AccDst: isAcc[j], Dst: isDst[j]})
				}
			}
		}
	}
	return
}

// AccFinding names the open known findings that explain a disagreement in an
// accumulated component destination, or "" if none is open (then the
// disagreement is a violation).
func AccFinding(field string, open func(string) bool) string {
	switch field {
	case "TotalCycles", "AccumulatedPower":
		if open("D10") {
			return "D10"
		}
	case "Distance":
		if open("D11") {
			return "D11"
		}
	}
	if open("K1") {
		return "K1"
	}
	return ""
}

// TruncateToProfile cuts a value to what the profile's fixed lengths can
// carry: strings to the longest prefix of whole characters that fits in
// length-1 bytes, arrays to the profile length.
func TruncateToProfile(v fitmodel.Val, fi *fitmodel.FieldInfo) fitmodel.Val {
	switch {
	case v.K == 's' && len(v.S) > fi.Length-1:
		n := fi.Length - 1
		if n < 0 {
			n = 0
		}
		for n > 0 && v.S[n]&0xC0 == 0x80 {
			n--
		}
		return fitmodel.S(v.S[:n])
	case v.K == 'a' && len(v.Elems) > fi.Length:
		return fitmodel.Arr(v.Elems[:fi.Length])
	}
	return v
}

// FileExpectTrunc is FileExpect with values first cut to the profile's fixed
// lengths (the re-encoding relation of C07).
func FileExpectTrunc(in *fit.File) *Expected {
	return fileExpect(in, true, true)
}
