//go:build verif

// Package oracle compares decoded Files with what the model says a stream
// denotes.
package oracle

import (
	"fmt"
	"reflect"

	"github.com/tormoder/fit"

	"verif/fitmodel"
	"verif/prof"
)

// Expected is the model's view of the File a stream denotes.
type Expected struct {
	FileType fit.FileType
	Slots    map[string][]*fitmodel.IMsg // "File.FileId", "Records", ...
	SlotList []prof.Slot
	Exp      map[*fitmodel.IMsg]fitmodel.Expansion
	Labels   map[string]int
}

func slotKey(s prof.Slot) string {
	if s.InFile {
		return "File." + s.Name
	}
	return s.Name
}

// Expect routes the interpreted messages into the slots of the public data
// model for file type ft (slice slots keep all in order, single slots the
// last) and applies component expansion to messages that land in a container
// slot.
func Expect(ip *fitmodel.Interp, ft fit.FileType, expand bool) *Expected {
	e := &Expected{FileType: ft, Slots: map[string][]*fitmodel.IMsg{}, Exp: map[*fitmodel.IMsg]fitmodel.Expansion{}, Labels: map[string]int{}}
	e.SlotList = append(prof.FileSlots(), prof.Slots(ft)...)
	byMsg := map[uint16][]prof.Slot{}
	for _, s := range e.SlotList {
		byMsg[s.Msg] = append(byMsg[s.Msg], s)
		e.Slots[slotKey(s)] = nil
	}
	acc := fitmodel.NewAccState()
	for _, m := range ip.Msgs {
		slots := byMsg[m.Global]
		if len(slots) == 0 {
			e.Labels["dropped"]++
			continue
		}
		// File-level slots take precedence (File.add routes common
		// messages before the container).
		s := slots[0]
		if expand && !s.InFile && fitmodel.ExpandsComponents(m.Global) {
			ex := fitmodel.Expand(m, acc)
			e.Exp[m] = ex
			for _, l := range ex.Labels {
				e.Labels[l]++
			}
		}
		k := slotKey(s)
		if s.Multi {
			e.Slots[k] = append(e.Slots[k], m)
			if len(e.Slots[k]) == 2 {
				e.Labels["slot-with->=2"]++
			}
		} else {
			if len(e.Slots[k]) == 1 {
				e.Labels["single-slot-overwritten"]++
			}
			e.Slots[k] = []*fitmodel.IMsg{m}
		}
	}
	return e
}

// Diff is one disagreement between a decoded File and the model.
type Diff struct {
	Slot   string
	Index  int
	Field  string
	Got    string
	Want   string
	AccDst bool // destination of an accumulated component
	Dst    bool // destination of any component expansion
}

func (d Diff) String() string {
	return fmt.Sprintf("%s[%d].%s: decoded %s, wire denotes %s", d.Slot, d.Index, d.Field, d.Got, d.Want)
}

// CompareOpts tunes Compare.
type CompareOpts struct {
	SkipFileId bool
}

// Compare checks every slot of f against e. It returns the disagreements and
// the number of field comparisons made / skipped as undecided.
func Compare(f *fit.File, e *Expected, o CompareOpts) (diffs []Diff, compared, undecided int) {
	for _, s := range e.SlotList {
		k := slotKey(s)
		want := e.Slots[k]
		got := prof.SlotMsgs(f, s)
		if s.InFile && s.Name == "FileId" && o.SkipFileId {
			continue
		}
		if len(got) != len(want) {
			diffs = append(diffs, Diff{Slot: k, Index: -1, Field: "(count)", Got: fmt.Sprint(len(got)), Want: fmt.Sprint(len(want))})
			continue
		}
		for i := range want {
			d, c, u := CompareMsg(got[i], want[i], e.Exp[want[i]])
			for j := range d {
				d[j].Slot, d[j].Index = k, i
			}
			diffs = append(diffs, d...)
			compared += c
			undecided += u
		}
	}
	return
}

// CompareMsg compares one decoded message with its expectation.
func CompareMsg(got reflect.Value, want *fitmodel.IMsg, ex fitmodel.Expansion) (diffs []Diff, compared, undecided int) {
	if !got.IsValid() {
		return []Diff{{Field: "(message)", Got: "nil", Want: want.Info.Name}}, 0, 0
	}
	if got.Type().Name() != want.Info.Name {
		return []Diff{{Field: "(type)", Got: got.Type().Name(), Want: want.Info.Name}}, 0, 0
	}
	isAcc := map[int]bool{}
	for _, i := range ex.AccDst {
		isAcc[i] = true
	}
	isDst := map[int]bool{}
	for _, i := range ex.Touched {
		isDst[i] = true
	}
	for i := 0; i < got.NumField(); i++ {
		if i >= len(want.Vals) || want.Und[i] {
			undecided++
			continue
		}
		compared++
		g := prof.FromReflect(got.Field(i))
		if !g.Equal(want.Vals[i]) {
			diffs = append(diffs, Diff{Field: got.Type().Field(i).Name, Got: g.String(), Want: want.Vals[i].String(), AccDst: isAcc[i], Dst: isDst[i]})
		}
	}
	return
}

// Catch runs fn and returns a recovered panic value (nil if none).
func Catch(fn func()) (p any) {
	defer func() {
		if r := recover(); r != nil {
			p = r
		}
	}()
	fn()
	return nil
}
