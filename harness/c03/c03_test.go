//go:build verif

package c03

import (
	"bytes"
	"encoding/binary"
	"encoding/json"
	"fmt"
	"io"
	"os"
	"reflect"
	"strings"
	"testing"

	"github.com/tormoder/fit"
	"pgregory.net/rapid"

	"verif/firstuse"
	"verif/fitmodel"
	"verif/gen"
	"verif/hx"
	"verif/oracle"
	"verif/prof"
)

type seqItem struct {
	Global uint16 `json:"global"`
	Tag    uint32 `json:"tag"`
	Local  byte   `json:"local"`
	BE     bool   `json:"be"`
	// Compressed: carry the message with a compressed-timestamp record
	// header (local types 0-3 only)
	Compressed bool `json:"compressed,omitempty"`
	TimeOffset byte `json:"time_offset,omitempty"`
	// Tail: the definition ends in something of size zero, so the last read
	// of the record asks for no bytes (1: an unlisted string field of size
	// 0; 2: a developer field of size 0; 3: the developer flag with no
	// developer fields)
	Tail int `json:"zero_size_tail,omitempty"`
	// Extra: besides the marker the message carries up to six more of its
	// unsigned scalar fields with small valid values (counts, indexes,
	// enum-like values), as real messages do; where a message is put must
	// not depend on them
	Extra bool `json:"extra_fields,omitempty"`
}

// extras returns the additional fields of message g an item with Extra
// carries: unsigned non-array native scalars other than the marker that play
// no role in component expansion, lowest field numbers first.
func extras(g uint16, mk *fitmodel.FieldInfo) []*fitmodel.FieldInfo {
	mi := prof.Table().Msgs[g]
	if mi == nil || g == 0 {
		return nil
	}
	var out []*fitmodel.FieldInfo
	for _, n := range prof.FieldNums(g) {
		fi := mi.Fields[n]
		bt := fitmodel.MustBase(fi.Base)
		if fi.Kind != fitmodel.KindNative || fi.Array || !bt.Integer || bt.Signed || fi.SIndex < 0 || fi.SIndex >= mi.NFields || n >= 250 {
			continue
		}
		if (mk != nil && fi.Num == mk.Num) || (fitmodel.ExpandsComponents(g) && dstOrSrc[fi.Name]) {
			continue
		}
		out = append(out, fi)
		if len(out) == 6 {
			break
		}
	}
	return out
}

type seqCase struct {
	FileType int       `json:"file_type"`
	Items    []seqItem `json:"items"`
	Text     string    `json:"text,omitempty"`
	// Chunk: the stream is also decoded through this chunking (short reads,
	// empty reads, long pauses); the File must be the same
	Chunk *gen.Chunking `json:"chunking,omitempty"`
	// FidShape: shape of the file_id definition the stream starts with (0:
	// one field; 1: a zero-size field after it; 2: developer-data flag with
	// one zero-size developer field; 3: the flag with no developer fields;
	// 4: the flag with a 3-byte developer field; 5: big-endian; 6: on local
	// type 9 with three more file_id fields)
	FidShape int `json:"file_id_definition_shape,omitempty"`
}

var dstOrSrc = map[string]bool{}

func init() {
	for _, l := range fitmodel.DestinationFields {
		for _, n := range l {
			dstOrSrc[n] = true
		}
	}
	for _, n := range []string{"Altitude", "Speed", "CompressedSpeedDistance", "Cycles", "CompressedAccumulatedPower",
		"AvgSpeed", "MaxSpeed", "AvgAltitude", "MaxAltitude", "MinAltitude", "Data16", "Data", "Event"} {
		dstOrSrc[n] = true
	}
}

// marker returns the field used to carry the sequence tag of message g: the
// widest unsigned non-array native scalar that plays no role in component
// expansion (ties: lowest field number). nil if the message has none.
func marker(g uint16) *fitmodel.FieldInfo {
	mi := prof.Table().Msgs[g]
	if mi == nil {
		return nil
	}
	var best *fitmodel.FieldInfo
	for _, n := range prof.FieldNums(g) {
		fi := mi.Fields[n]
		bt := fitmodel.MustBase(fi.Base)
		if fi.Kind != fitmodel.KindNative || fi.Array || !bt.Integer || bt.Signed || fi.SIndex < 0 || fi.SIndex >= mi.NFields {
			continue
		}
		if fitmodel.ExpandsComponents(g) && dstOrSrc[fi.Name] {
			continue
		}
		if g == 0 && n == 0 {
			continue // file_id.type
		}
		if best == nil || bt.Size > fitmodel.MustBase(best.Base).Size {
			best = fi
		}
	}
	return best
}

// build turns a sequence into a stream: each item gets a definition of its
// message (marker field only; file_id always carries the type) on its local
// type when the slot does not already hold that definition, then a data record.
func build(c seqCase) *fitmodel.Stream {
	s := &fitmodel.Stream{HeaderSize: 14, Proto: 0x20, ProfileVer: 2140}
	fidDef := fitmodel.Rec{IsDef: true, Local: 0, Global: 0, Fields: []fitmodel.FieldDef{{Num: 0, Size: 1, Base: 0}}}
	fidData := fitmodel.Rec{Local: 0, Raw: []byte{byte(c.FileType)}}
	switch c.FidShape {
	case 1:
		fidDef.Fields = append(fidDef.Fields, fitmodel.FieldDef{Num: 249, Size: 0, Base: 0x07})
	case 2:
		fidDef.HasDev = true
		fidDef.Dev = []fitmodel.DevFieldDef{{Num: 0, Size: 0, Idx: 0}}
	case 3:
		fidDef.HasDev = true
	case 4:
		fidDef.HasDev = true
		fidDef.Dev = []fitmodel.DevFieldDef{{Num: 7, Size: 3, Idx: 1}}
		fidData.Raw = append(fidData.Raw, 0xD1, 0xD2, 0xD3)
	case 5:
		fidDef.BigEndian = true
	case 6:
		fidDef.Local, fidData.Local = 9, 9
		fidDef.Fields = append(fidDef.Fields, fitmodel.FieldDef{Num: 1, Size: 2, Base: 0x84}, fitmodel.FieldDef{Num: 3, Size: 4, Base: 0x8C}, fitmodel.FieldDef{Num: 4, Size: 4, Base: 0x86})
		fidData.Raw = append(fidData.Raw, 1, 0, 0x78, 0x56, 0x34, 0x12, 0x00, 0xCA, 0x9A, 0x3B)
	}
	s.Recs = append(s.Recs, fidDef, fidData)
	type key struct {
		g     uint16
		be    bool
		tail  int
		extra bool
	}
	var slots [16]*key
	slots[0] = nil // force redefinition when local 0 is reused
	for _, it := range c.Items {
		l := it.Local & 0x0F
		mk := marker(it.Global)
		if slots[l] == nil || *slots[l] != (key{it.Global, it.BE, it.Tail, it.Extra}) {
			def := fitmodel.Rec{IsDef: true, Local: l, Global: it.Global, BigEndian: it.BE}
			if it.Global == 0 {
				def.Fields = append(def.Fields, fitmodel.FieldDef{Num: 0, Size: 1, Base: 0})
			}
			if mk != nil {
				def.Fields = append(def.Fields, fitmodel.FieldDef{Num: mk.Num, Size: byte(fitmodel.MustBase(mk.Base).Size), Base: mk.Base})
			} else if prof.Table().Msgs[it.Global] == nil {
				def.Fields = append(def.Fields, fitmodel.FieldDef{Num: 1, Size: 4, Base: 0x86})
				if it.Global%2 == 1 {
					// unknown messages with a payload of more than 255 bytes
					def.Fields = append(def.Fields, fitmodel.FieldDef{Num: 2, Size: 200, Base: 0x0D}, fitmodel.FieldDef{Num: 3, Size: 120, Base: 0x0D})
				}
			}
			if it.Extra {
				for _, fi := range extras(it.Global, mk) {
					def.Fields = append(def.Fields, fitmodel.FieldDef{Num: fi.Num, Size: byte(fitmodel.MustBase(fi.Base).Size), Base: fi.Base})
				}
			}
			switch it.Tail {
			case 1:
				def.Fields = append(def.Fields, fitmodel.FieldDef{Num: 249, Size: 0, Base: 0x07})
			case 2:
				def.HasDev = true
				def.Dev = []fitmodel.DevFieldDef{{Num: 0, Size: 0, Idx: 0}}
			case 3:
				def.HasDev = true
			}
			s.Recs = append(s.Recs, def)
			slots[l] = &key{it.Global, it.BE, it.Tail, it.Extra}
		}
		r := fitmodel.Rec{Local: l}
		if it.Compressed && l <= 3 {
			r.Compressed = true
			r.TimeOffset = it.TimeOffset & 0x1F
		}
		if it.Global == 0 {
			r.Raw = append(r.Raw, byte(c.FileType))
		}
		if mk != nil {
			bt := fitmodel.MustBase(mk.Base)
			r.Raw = append(r.Raw, fitmodel.PutWireUint(uint64(tagValue(it.Tag, bt)), bt.Size, it.BE)...)
		} else if prof.Table().Msgs[it.Global] == nil {
			r.Raw = append(r.Raw, fitmodel.PutWireUint(uint64(it.Tag), 4, it.BE)...)
			if it.Global%2 == 1 {
				// filler that would look like records if it were parsed: data
				// record headers of the low local types
				for i := 0; i < 320; i++ {
					r.Raw = append(r.Raw, byte(i%4))
				}
			}
		}
		if it.Extra {
			for _, fi := range extras(it.Global, mk) {
				bt := fitmodel.MustBase(fi.Base)
				r.Raw = append(r.Raw, fitmodel.PutWireUint(uint64(1+(it.Tag*7+uint32(fi.Num))%40), bt.Size, it.BE)...)
			}
		}
		s.Recs = append(s.Recs, r)
	}
	return s
}

// tagValue maps a tag into the marker's width, avoiding 0 and the invalid
// patterns.
func tagValue(tag uint32, bt fitmodel.BaseType) uint32 {
	switch bt.Size {
	case 1:
		return 1 + tag%250
	case 2:
		return 1 + tag%65000
	}
	return 1 + tag%4000000000
}

func checkSeq(rec *hx.Recorder, c seqCase) (string, bool) {
	s := build(c)
	text := s.String()
	ip := fitmodel.Interpret(s, prof.Table())
	if ip.FailRec >= 0 {
		return "HARNESS: " + ip.FailWhy, false
	}
	var f *fit.File
	var err error
	if p := oracle.Catch(func() { f, err = fit.Decode(bytes.NewReader(s.Bytes())) }); p != nil {
		return fmt.Sprintf("Decode panicked: %v\nstream: %s", p, text), false
	}
	if err != nil {
		return fmt.Sprintf("Decode failed: %v\nstream: %s", err, text), false
	}
	exp := oracle.Expect(ip, fit.FileType(c.FileType), true)
	diffs, _, _ := oracle.Compare(f, exp, oracle.CompareOpts{})
	if len(diffs) > 0 {
		var sb strings.Builder
		for i, d := range diffs {
			if i == 8 {
				break
			}
			sb.WriteString(d.String() + "\n")
		}
		return fmt.Sprintf("routing differs from the public data model (%d differences):\n%sstream: %s", len(diffs), sb.String(), text), false
	}
	if msg, ok := checkAccessors(f, fit.FileType(c.FileType)); !ok {
		return msg + "\nstream: " + text, false
	}
	if c.Chunk != nil {
		var fc *fit.File
		var cerr error
		p := oracle.Catch(func() { fc, cerr = fit.Decode(gen.NewReader(s.Bytes(), *c.Chunk)) })
		if p != nil || cerr != nil {
			return fmt.Sprintf("Decode through chunking %v: panic=%v err=%v\nstream: %s", *c.Chunk, p, cerr, text), false
		}
		if d1, d2 := prof.Digest(f, prof.DigestOpts{}), prof.Digest(fc, prof.DigestOpts{}); d1 != d2 {
			return fmt.Sprintf("Decode through chunking %v gives a different File\nwhole:\n%s\nchunked:\n%s\nstream: %s", *c.Chunk, d1, d2, text), false
		}
	}
	// where messages are put does not depend on the concrete type of the
	// reader (one reader kind per case, chosen by the case's content)
	kinds := gen.ReaderKinds(os.Getenv("VERIF_BUILD"))
	kind := kinds[(len(c.Items)+c.FileType)%len(kinds)]
	if r, _, done, oerr := kind.Open(s.Bytes()); oerr == nil {
		var fk *fit.File
		var kerr error
		p := oracle.Catch(func() { fk, kerr = fit.Decode(r) })
		done()
		if p != nil || kerr != nil {
			return fmt.Sprintf("Decode through a %s: panic=%v err=%v\nstream: %s", kind.Name, p, kerr, text), false
		}
		o := prof.DigestOpts{}
		if d1, d2 := prof.Digest(f, o), prof.Digest(fk, o); d1 != d2 {
			return fmt.Sprintf("Decode through a %s gives a different File than through a plain reader\nplain:\n%s\n%s:\n%s\nstream: %s", kind.Name, d1, kind.Name, d2, text), false
		}
	}
	// metamorphic: removing every message the file type does not hold
	// leaves the digest unchanged
	hosted := map[uint16]bool{}
	for _, m := range prof.HostedMsgs(fit.FileType(c.FileType)) {
		hosted[m] = true
	}
	c2 := seqCase{FileType: c.FileType, FidShape: c.FidShape}
	for _, it := range c.Items {
		if hosted[it.Global] {
			c2.Items = append(c2.Items, it)
		}
	}
	if len(c2.Items) != len(c.Items) {
		f2, err2 := fit.Decode(bytes.NewReader(build(c2).Bytes()))
		if err2 != nil {
			return fmt.Sprintf("Decode failed after removing unheld messages: %v\nstream: %s", err2, text), false
		}
		o := prof.DigestOpts{NoHeader: true}
		if d1, d2 := prof.Digest(f, o), prof.Digest(f2, o); d1 != d2 {
			return fmt.Sprintf("messages the file type does not hold changed the result\nwith:\n%s\nwithout:\n%s\nstream: %s", d1, d2, text), false
		}
		rec.Class("dropped-messages-removed", 1)
	}
	return "", true
}

// checkAccessors: exactly the accessor matching ft returns a non-nil
// container and nil error; the other 16 return an error and a nil container.
func checkAccessors(f *fit.File, ft fit.FileType) (string, bool) {
	vals, errs := prof.Accessors(f)
	for i, t := range prof.FileTypes {
		if t == ft {
			if errs[i] != nil || vals[i].IsNil() {
				return fmt.Sprintf("accessor for file type %d returned (%v, %v) on a file of that type", t, vals[i], errs[i]), false
			}
			continue
		}
		if errs[i] == nil {
			return fmt.Sprintf("accessor for file type %d returned no error on a file of type %d", t, ft), false
		}
		if !vals[i].IsNil() {
			return fmt.Sprintf("accessor for file type %d returned a container together with an error on a file of type %d", t, ft), false
		}
	}
	return "", true
}

func isSupported(b int) bool {
	for _, t := range prof.FileTypes {
		if int(t) == b {
			return true
		}
	}
	return false
}

type typeCase struct {
	Type int `json:"type_byte"`
}

func checkTypeByte(b int) (string, bool) {
	c := seqCase{FileType: b}
	data := build(c).Bytes()
	var f *fit.File
	var err error
	if p := oracle.Catch(func() { f, err = fit.Decode(bytes.NewReader(data)) }); p != nil {
		return fmt.Sprintf("Decode panicked for file type byte %d: %v", b, p), false
	}
	var nf *fit.File
	var nerr error
	if p := oracle.Catch(func() { nf, nerr = fit.NewFile(fit.FileType(b), fit.NewHeader(fit.V20, true)) }); p != nil {
		return fmt.Sprintf("NewFile panicked for file type %d: %v", b, p), false
	}
	if isSupported(b) {
		if err != nil || nerr != nil {
			return fmt.Sprintf("file type %d is one of the 17 container types but Decode err=%v NewFile err=%v", b, err, nerr), false
		}
		if f.Type() != fit.FileType(b) || nf.Type() != fit.FileType(b) {
			return fmt.Sprintf("file type %d: Type() reports %d / %d", b, f.Type(), nf.Type()), false
		}
		if msg, ok := checkAccessors(f, fit.FileType(b)); !ok {
			return "decoded: " + msg, false
		}
		if msg, ok := checkAccessors(nf, fit.FileType(b)); !ok {
			return "NewFile: " + msg, false
		}
		return "", true
	}
	if err == nil {
		return fmt.Sprintf("Decode accepted file type byte %d, which has no container (invalid/unknown/manufacturer specific)", b), false
	}
	if nerr == nil || nf != nil {
		return fmt.Sprintf("NewFile accepted file type %d, which has no container", b), false
	}
	return "", true
}

func drawSeq(d gen.D) seqCase {
	ft := prof.FileTypes[d.Int(0, len(prof.FileTypes)-1, "ft")]
	hosted := prof.HostedMsgs(ft)
	all := prof.MsgNums()
	unk := gen.UnknownMsgPool()
	n := d.Int(1, 30, "n")
	c := seqCase{FileType: int(ft)}
	// favour a small set of message types so slots receive several messages
	focus := []uint16{hosted[d.Int(0, len(hosted)-1, "f1")], hosted[d.Int(0, len(hosted)-1, "f2")], hosted[d.Int(0, len(hosted)-1, "f3")]}
	for i := 0; i < n; i++ {
		var g uint16
		switch k := d.Int(0, 99, "k"); {
		case k < 55:
			g = focus[d.Int(0, 2, "fi")]
		case k < 75:
			g = hosted[d.Int(0, len(hosted)-1, "h")]
		case k < 90:
			g = all[d.Int(0, len(all)-1, "a")]
		default:
			g = unk[d.Int(0, len(unk)-1, "u")]
		}
		it := seqItem{Global: g, Tag: uint32(i + 1), Local: byte(d.Int(0, 15, "l")), BE: d.Chance(30, "be")}
		if d.Int(0, 4, "compr") == 0 {
			it.Local = byte(d.Int(0, 3, "cl"))
			it.Compressed = true
			it.TimeOffset = byte(d.Int(0, 31, "toff"))
		}
		it.Extra = d.Int(0, 2, "extra") == 0
		if tailPct := map[bool]int{false: 10, true: 40}[i == n-1]; d.Int(0, 99, "tail") < tailPct {
			it.Tail = d.Int(1, 3, "tailkind")
		}
		c.Items = append(c.Items, it)
	}
	if d.Int(0, 3, "chunked") == 0 {
		ch := gen.DrawChunking(d)
		c.Chunk = &ch
	}
	if d.Int(0, 3, "fidshape?") == 0 {
		c.FidShape = d.Int(1, 6, "fidshape")
	}
	return c
}

// declaredSizes: headers that announce a data section of 2^31-1, 2^31, 2^32-16
// bytes in front of a body of three records. Decode runs out of input and
// says so; the messages it had routed by then are in the File it returns with
// the error, in order (nothing about a size makes the decoder give up before
// it has read what is there).
func declaredSizes(rec *hx.Recorder) {
	s := &fitmodel.Stream{HeaderSize: 12, Proto: 0x20, Recs: []fitmodel.Rec{
		{IsDef: true, Global: 0, Fields: []fitmodel.FieldDef{{Num: 0, Size: 1, Base: 0}}}, {Raw: []byte{4}},
		{IsDef: true, Local: 1, Global: 20, Fields: []fitmodel.FieldDef{{Num: 3, Size: 1, Base: 2}}},
		{Local: 1, Raw: []byte{100}}, {Local: 1, Raw: []byte{101}}, {Local: 1, Raw: []byte{102}},
	}}
	whole := s.Bytes()
	n := int64(0)
	for _, size := range []uint32{0x7FFFFFFF, 0x80000000, 0x80000001, 0xFFFFFFF0, 0x00FFFFFF} {
		img := append([]byte(nil), whole[:len(whole)-2]...)
		binary.LittleEndian.PutUint32(img[4:], size)
		n++
		var f *fit.File
		var err error
		if p := oracle.Catch(func() { f, err = fit.Decode(bytes.NewReader(img)) }); p != nil {
			rec.Fail("declared-sizes", "", fmt.Sprintf("declared data size %d: Decode panicked: %v", size, p), typeCase{int(size % 251)})
			continue
		}
		var got []byte
		if f != nil {
			if a, aerr := f.Activity(); aerr == nil && a != nil {
				for _, r := range a.Records {
					got = append(got, r.HeartRate)
				}
			}
		}
		if err == nil || !bytes.Equal(got, []byte{100, 101, 102}) {
			rec.Fail("declared-sizes", "", fmt.Sprintf("header declares %d data bytes, the input ends after three records: Decode returned err=%v and records %v (want an error and the three records 100, 101, 102 in the File returned with it)", size, err, got), typeCase{int(size % 251)})
		}
	}
	rec.Eval("declared-sizes", n)
	rec.NonTrivialEnum(n)
}

// bigGen streams a well-formed activity file of more than 2 GiB without
// holding it: file_id, record(100), nBig unknown messages of bigLen bytes,
// record(101), file CRC.
type bigGen struct {
	head, tail []byte
	nBig       int
	bigLen     int
	crc        uint16
	phase, i   int
	off        int
	table      [256]uint16
	filler     []byte
}

func (g *bigGen) feed(p []byte) {
	for _, x := range p {
		g.crc = (g.crc >> 8) ^ g.table[byte(g.crc)^x]
	}
}

func (g *bigGen) Read(p []byte) (int, error) {
	for {
		var src []byte
		switch g.phase {
		case 0:
			src = g.head
		case 1:
			if g.i >= g.nBig {
				g.phase, g.off = 2, 0
				continue
			}
			src = g.filler
		case 2:
			src = g.tail
		case 3:
			src = []byte{byte(g.crc), byte(g.crc >> 8)}
		default:
			return 0, io.EOF
		}
		if g.off >= len(src) {
			g.off = 0
			switch g.phase {
			case 1:
				g.i++
			default:
				g.phase++
			}
			continue
		}
		n := copy(p, src[g.off:])
		if g.phase < 3 {
			g.feed(src[g.off : g.off+n])
		}
		g.off += n
		return n, nil
	}
}

// twoGiB (thorough tier): a real file of more than 2^31 bytes, streamed. Both
// records, before and after two gigabytes of unknown messages, are in the
// container, in order.
func twoGiB(rec *hx.Recorder) {
	const bigLen = 255 * 255
	nBig := (1<<31)/(bigLen+1) + 12
	def := fitmodel.Rec{IsDef: true, Local: 2, Global: 0xFF50}
	for i := 0; i < 255; i++ {
		num := byte(i)
		if num == 253 {
			num = 254
		}
		def.Fields = append(def.Fields, fitmodel.FieldDef{Num: num, Size: 255, Base: 0x0D})
	}
	pre := &fitmodel.Stream{Recs: []fitmodel.Rec{
		{IsDef: true, Global: 0, Fields: []fitmodel.FieldDef{{Num: 0, Size: 1, Base: 0}}}, {Raw: []byte{4}},
		{IsDef: true, Local: 1, Global: 20, Fields: []fitmodel.FieldDef{{Num: 3, Size: 1, Base: 2}}},
		{Local: 1, Raw: []byte{100}}, def,
	}}
	var body []byte
	for i := range pre.Recs {
		body = pre.Recs[i].AppendTo(body)
	}
	tail := (&fitmodel.Rec{Local: 1, Raw: []byte{101}}).AppendTo(nil)
	dataSize := len(body) + nBig*(bigLen+1) + len(tail)
	g := &bigGen{nBig: nBig, bigLen: bigLen, tail: tail}
	for i := range g.table {
		g.table[i] = fitmodel.CRCStep(0, byte(i))
	}
	g.head = append((&fitmodel.Stream{HeaderSize: 12, Proto: 0x20}).Header(dataSize), body...)
	g.filler = make([]byte, bigLen+1)
	g.filler[0] = 2 // record header: local type 2
	for i := 1; i < len(g.filler); i++ {
		g.filler[i] = byte(i * 31)
	}
	var f *fit.File
	var err error
	if p := oracle.Catch(func() { f, err = fit.Decode(g) }); p != nil {
		rec.Fail("two-gib", "", fmt.Sprintf("Decode of a %d-byte file panicked: %v", dataSize+14, p), typeCase{0})
		return
	}
	rec.Eval("two-gib", 1)
	rec.NonTrivialEnum(1)
	var got []byte
	if f != nil {
		if a, aerr := f.Activity(); aerr == nil && a != nil {
			for _, r := range a.Records {
				got = append(got, r.HeartRate)
			}
		}
	}
	if err != nil || !bytes.Equal(got, []byte{100, 101}) {
		rec.Fail("two-gib", "", fmt.Sprintf("a well-formed activity file with a data section of %d bytes (two records around %d unknown messages): err=%v records=%v, want the records 100 and 101", dataSize, nBig, err, got), typeCase{0})
	}
}

// million: more than 2^20 messages of one type in one container (a day-long
// recording at high rate): every one is there, in stream order. The stream is
// assembled as bytes (one definition, then records that carry their index in
// a uint32 field).
func million(rec *hx.Recorder) {
	type plan struct {
		ft     byte
		global uint16
		field  byte // a uint32 field of the message
		name   string
	}
	n := 1250000
	for _, pl := range []plan{{4, 20, 5, "activity records"}, {6, 20, 5, "course records"}} {
		body := make([]byte, 0, 5*n+64)
		body = (&fitmodel.Rec{IsDef: true, Global: 0, Fields: []fitmodel.FieldDef{{Num: 0, Size: 1, Base: 0}}}).AppendTo(body)
		body = (&fitmodel.Rec{Raw: []byte{pl.ft}}).AppendTo(body)
		body = (&fitmodel.Rec{IsDef: true, Local: 1, Global: pl.global, Fields: []fitmodel.FieldDef{{Num: pl.field, Size: 4, Base: 0x86}}}).AppendTo(body)
		for i := 0; i < n; i++ {
			body = append(body, 1, byte(i), byte(i>>8), byte(i>>16), byte(i>>24))
		}
		data := append((&fitmodel.Stream{HeaderSize: 12, Proto: 0x20}).Header(len(body)), body...)
		crc := fitmodel.CRC(data)
		data = append(data, byte(crc), byte(crc>>8))
		var f *fit.File
		var err error
		p := oracle.Catch(func() { f, err = fit.Decode(bytes.NewReader(data)) })
		rec.Eval("million", 1)
		rec.NonTrivialEnum(1)
		c := seqCase{FileType: int(pl.ft), Text: fmt.Sprintf("(million) %d %s carrying their index", n, pl.name)}
		if p != nil || err != nil {
			rec.Fail("million", "", fmt.Sprintf("Decode of a file with %d %s: panic=%v err=%v", n, pl.name, p, err), c)
			continue
		}
		var got []uint32
		switch {
		case pl.ft == 4 && pl.global == 20:
			a, _ := f.Activity()
			for _, m := range a.Records {
				got = append(got, m.Distance)
			}
		case pl.ft == 6:
			a, _ := f.Course()
			for _, m := range a.Records {
				got = append(got, m.Distance)
			}
		default:
			a, _ := f.Activity()
			for _, m := range a.Laps {
				got = append(got, m.TotalDistance)
			}
		}
		if len(got) != n {
			rec.Fail("million", "", fmt.Sprintf("the stream has %d %s, the container holds %d", n, pl.name, len(got)), c)
			continue
		}
		for i, v := range got {
			if v != uint32(i) {
				rec.Fail("million", "", fmt.Sprintf("%s: element %d of the container is message #%d of the stream", pl.name, i, v), c)
				break
			}
		}
	}
}

// TestMain: with VERIF_FIRSTUSE_WORKER set this binary is a child of the
// "first-use" sub-check (see package firstuse).
func TestMain(m *testing.M) {
	firstuse.WorkerIfAsked()
	os.Exit(m.Run())
}

func TestC03(t *testing.T) {
	hx.Main(t, "C03", func(rec *hx.Recorder) {
		if rp, ok := hx.LoadReplay(); ok {
			rec.Eval("replay", 1)
			switch rp.Sub {
			case "typebytes":
				var c typeCase
				json.Unmarshal(rp.Case, &c)
				if msg, ok := checkTypeByte(c.Type); !ok {
					rec.Fail(rp.Sub, "", msg, c)
				}
			case "declared-sizes":
				declaredSizes(rec)
			case "two-gib":
				twoGiB(rec)
			case "million":
				million(rec)
			case "first-use":
				firstuse.Run(rec, 300, func(msg string) { rec.Fail("first-use", "", msg, seqCase{FileType: 4, Text: "(first-use)"}) })
			default:
				var c seqCase
				json.Unmarshal(rp.Case, &c)
				if msg, ok := checkSeq(rec, c); !ok {
					rec.Fail(rp.Sub, "", msg, c)
				}
			}
			return
		}

		if hx.FirstShard() {
			declaredSizes(rec)
			if os.Getenv("VERIF_VARIANT") == "" {
				million(rec)
				// the first Decode calls of a fresh process made by 16
				// goroutines at once: every message in its container
				firstuse.Run(rec, hx.Pick(150, 1500), func(msg string) {
					rec.Fail("first-use", "", msg, seqCase{FileType: 4, Text: "(first-use) 16 goroutines decode a small activity file as the first calls of a fresh process"})
				})
			}
			if hx.Thorough() {
				twoGiB(rec)
			}
		}

		if hx.FirstShard() {
			// exhaustive: 256 file type bytes x (Decode, NewFile, 17 accessors)
			for b := 0; b < 256; b++ {
				if msg, ok := checkTypeByte(b); !ok {
					rec.Fail("typebytes", "", msg, typeCase{b})
				}
			}
			rec.Eval("typebytes", 256)
			rec.NonTrivialEnum(256)
			rec.Exhaustive("256 file type bytes x Decode/NewFile acceptance x 17 accessors")

			// exhaustive: every (file type, known message) pair, three messages
			// of that type interleaved with one of another hosted type
			pairs := int64(0)
			for _, ft := range prof.FileTypes {
				hosted := prof.HostedMsgs(ft)
				for _, g := range prof.MsgNums() {
					other := hosted[int(g)%len(hosted)]
					c := seqCase{FileType: int(ft), Items: []seqItem{
						{Global: g, Tag: 1, Local: 1, Compressed: true, TimeOffset: 7}, {Global: other, Tag: 2, Local: 2}, {Global: g, Tag: 3, Local: 1, BE: true}, {Global: g, Tag: 4, Local: 3},
					}}
					pairs++
					if msg, ok := checkSeq(rec, c); !ok {
						rec.Fail("pairs", "", msg, c)
					}
				}
			}
			// every file type with every shape of file_id definition
			for _, ft := range prof.FileTypes {
				hosted := prof.HostedMsgs(ft)
				for shape := 1; shape <= 6; shape++ {
					c := seqCase{FileType: int(ft), FidShape: shape, Items: []seqItem{
						{Global: hosted[len(hosted)-1], Tag: 1, Local: 1}, {Global: hosted[0], Tag: 2, Local: 2}, {Global: hosted[len(hosted)-1], Tag: 3, Local: 9},
					}}
					pairs++
					if msg, ok := checkSeq(rec, c); !ok {
						rec.Fail("pairs", "", msg, c)
					}
				}
			}
			rec.Eval("pairs", pairs)
			rec.NonTrivialEnum(pairs)
			rec.Exhaustive("every (file type, known message type) pair with 3 tagged messages of that type and one of another type")

		}

		hx.RapidCheck(t, rec, "sequences", func(rt *rapid.T, fail func(string, string, any)) {
			c := drawSeq(gen.D{T: rt})
			rec.Eval("sequences", 1)
			types := map[uint16]int{}
			for _, it := range c.Items {
				types[it.Global]++
			}
			multi := false
			hosted := map[uint16]bool{}
			for _, m := range prof.HostedMsgs(fit.FileType(c.FileType)) {
				hosted[m] = true
			}
			for g, n := range types {
				if n >= 2 && hosted[g] {
					multi = true
				}
			}
			if len(types) >= 2 && multi {
				rec.NonTrivial(hx.FP(fmt.Sprint(c)))
				rec.Class(">=2 types interleaved and a slot with >=2 messages", 1)
			}
			if rec.WantSample() && len(c.Items) < 8 {
				c.Text = build(c).String()
				rec.Sample(c)
			}
			if msg, ok := checkSeq(rec, c); !ok {
				fail("", msg, c)
			}
		})
	})
}

var _ = reflect.TypeOf
