#!/bin/sh
# Warm the Go build cache: compile every check binary against /repo (offline).
set -e
cd "$(dirname "$0")/harness"
export GOFLAGS=-mod=mod GOPROXY=off GOSUMDB=off GOTOOLCHAIN=local
mkdir -p ../.build ../evidence ../replays
go run ./tools/gentypes /repo/types.go c20/zz_types_test.go
for d in c*/; do
  if [ "$d" = "c09/" ]; then go test -c -race -tags verif -vet=off -o ../.build/c09-race.test ./c09 >/dev/null; continue; fi
  d=${d%/}
  go test -c -tags verif -vet=off -o ../.build/$d.test ./$d >/dev/null
done
# the 32-bit build of the C20 check (a failure here only disables that sub-check)
GOARCH=386 CGO_ENABLED=0 go test -c -tags verif -vet=off -o ../.build/c20-386.test ./c20 >/dev/null 2>&1 || echo "note: GOARCH=386 build of c20 not available"
echo setup ok
