#!/usr/bin/env python3
"""Regenerates MANIFEST.json from checks_conf.py (claimed checks) and
properties.jsonl (everything else goes to not_applicable with a reason)."""
import json, os, subprocess, sys
V = os.path.dirname(os.path.abspath(__file__))
sys.path.insert(0, V)
from checks_conf import CONF, NOT_APPLICABLE

props = [json.loads(l) for l in open(os.path.join(V, "properties.jsonl"))]
hooks = subprocess.run(["git", "-C", "/repo", "log", "--format=%H %s"], capture_output=True, text=True).stdout.splitlines()
hook_commits = [l.split()[0] for l in hooks if l.split(" ", 1)[1].startswith("verif hook")]

checks = []
na = []
for p in props:
    pid = p["id"]
    if pid in CONF:
        c = CONF[pid]
        checks.append({
            "property_id": pid,
            "quick_cmd": "./check %s --tier quick" % pid,
            "thorough_cmd": "./check %s --tier thorough" % pid,
            "evidence_file": "/verif/evidence/%s.json" % pid,
            "replay_cmd_template": "./check %s --replay {path}" % pid,
            "engine": "harness",
            "level_claimed": {"category": c["level"], "text": c["level_text"], "design_ref": "DESIGN.md section 3, " + pid},
            "level_note": c["level_note"],
            "technique": c["technique"],
        })
    else:
        na.append({"property_id": pid, "reason": NOT_APPLICABLE.get(pid, "no check built yet in this session; planned with property-based testing as described in DESIGN.md section 3 (not a limitation of the technique)")})

m = {
    "version": 1,
    "setup_cmd": "./setup.sh",
    "hooks": {
        "guard": "verif",
        "enable": "go build tag: checks compile /repo with `-tags verif` (files verif_hooks.go, cmd/fitgen/verifstringer/main.go and cmd/fitgen/verifstringer2/main.go carry //go:build verif)",
        "baseline_off_cmd": "cd /repo && GOFLAGS=-mod=mod GOPROXY=off GOSUMDB=off GOTOOLCHAIN=local go test -vet=off -count=1 ./...",
        "source_commits": hook_commits,
        "add_only": True,
    },
    "engines": [{
        "name": "harness",
        "path": "/verif/harness",
        "serves_properties": sorted(CONF),
        "kind_free_text": "Go test binaries (pgregory.net/rapid v1.3.0 generators/state machines/shrinking, exhaustive enumerators, fault enumerators, native go fuzzing in thorough tiers) with an independent FIT model (harness/fitmodel) as oracle; python3 driver ./check builds them against /repo's working tree, runs shards, matches failures against known_findings.json and writes evidence",
    }],
    "checks": checks,
    "not_applicable": na,
    "notes": "Every check: ./check <ID> --tier quick|thorough; exit 0 held / 1 VIOLATION / 2 inconclusive. VERIF_SEED selects the rapid seed. Replays: ./check <ID> --replay <file>.",
}
json.dump(m, open(os.path.join(V, "MANIFEST.json"), "w"), indent=1)
print("claimed:", [c["property_id"] for c in checks])
